// ======================================================================================
// fragment visit_efilter.rs - src/visit/filter.rs: the EdgeFiltered adaptor (C06), generic in the wrapped graph G and the
// filter F: it presents exactly the edges the filter includes - through edge_references, edges(a) and neighbors(a),
// consistently (the IntoEdges law holds for it).  Its three iterators are proved against vstd's iterator contract.
//   D25 : `it.find(p)` and `(&mut it).filter_map(f).next()` are unfolded to std's defining loop over `it.next()`;
//         the predicate / mapping expressions themselves stay outside the rewritten regions.
//   NOT here: IntoNeighborsDirected / IntoEdgesDirected for EdgeFiltered (the neighbour-direction law needs an edge-level
//   consistency law of the wrapped graph that the trait contracts do not state); EdgeFilteredNeighborsDirected::next IS proved.
// ======================================================================================

//@ item src/visit/filter.rs | - | trait FilterEdge
/// A graph filter for edges
pub trait FilterEdge<Edge> {
    /*+*/
    /// the filter's verdict (a function of the edge reference)
    spec fn einc(&self, edge: Edge) -> bool;
    /*-*/
    /// Return true to have the edge be part of the graph
    fn include_edge(&self, edge: Edge) -> (r: bool)
        /*+*/ensures r == self.einc(edge)/*-*/;
}
//@ end

//@ item src/visit/filter.rs | - | struct EdgeFiltered
/// An edge-filtering graph adaptor.
#[derive(Copy, Clone, Debug)]
pub struct EdgeFiltered<G, F>(pub G, pub F);
//@ end

//@ item src/visit/filter.rs | - | impl<G, F> GraphBase for EdgeFiltered<G, F> where G: GraphBase
impl<G, F> GraphBase for EdgeFiltered<G, F>
where
    G: GraphBase,
{
    type NodeId = G::NodeId;
    type EdgeId = G::EdgeId;
}
//@ end

// hand-expanded `Data! {delegate_impl [[G, F], G, EdgeFiltered<G, F>, access0]}` (macro_rules expansion, NOT extracted)
impl<G, F> Data for EdgeFiltered<G, F> where G: Data {
    type NodeWeight = G::NodeWeight;
    type EdgeWeight = G::EdgeWeight;
}

/// keep the included edges
pub open spec fn ekeep_f<R, F: FilterEdge<R>>(f: &F) -> spec_fn(R) -> Option<R> { |e: R| if f.einc(e) { Some(e) } else { None } }
/// the targets of the included edges
pub open spec fn etgt_f<R: EdgeRef, F: FilterEdge<R>>(f: &F) -> spec_fn(R) -> Option<R::NodeId> { |e: R| if f.einc(e) { Some(e.tgt()) } else { None } }
/// the far end (seen from `from`) of the included edges; `!=` is the identifier type's own PartialEq (nothing is claimed for a type whose PartialEq has no specification: obeys_eq_spec)
pub open spec fn efar_f<R: EdgeRef, F: FilterEdge<R>>(f: &F, from: R::NodeId) -> spec_fn(R) -> Option<R::NodeId> where R::NodeId: PartialEq {
    |e: R| if f.einc(e) { if !e.src().eq_spec(&from) { Some(e.src()) } else { Some(e.tgt()) } } else { None }
}

//@ item src/visit/filter.rs | - | struct EdgeFilteredEdges
/// A filtered edges iterator.
pub struct EdgeFilteredEdges<'a, G, I, F: 'a> {
    pub graph: PhantomData<G>,
    pub iter: I,
    pub f: &'a F,
}
//@ end

impl<'a, G: IntoEdgeReferences, I: Iterator<Item = G::EdgeRef>, F: FilterEdge<G::EdgeRef>> EdgeFilteredEdges<'a, G, I, F> {
    #[verifier::prophetic]
    pub open spec fn rem(&self) -> Seq<I::Item> { fm_seq(self.iter.remaining(), ekeep_f::<G::EdgeRef, F>(self.f)) }
}
impl<'a, G: IntoEdgeReferences, I: Iterator<Item = G::EdgeRef>, F: FilterEdge<G::EdgeRef>> vstd::std_specs::iter::IteratorSpecImpl for EdgeFilteredEdges<'a, G, I, F> {
    open spec fn obeys_prophetic_iter_laws(&self) -> bool { self.iter.obeys_prophetic_iter_laws() }
    #[verifier::prophetic]
    open spec fn remaining(&self) -> Seq<I::Item> { self.rem() }
    open spec fn decrease(&self) -> Option<nat> { self.iter.decrease() }
    open spec fn will_return_none(&self) -> bool { true }
    open spec fn peek(&self, i: int) -> Option<I::Item> { None }
}

//@ item src/visit/filter.rs | - | impl<G, I, F> Iterator for EdgeFilteredEdges<'_, G, I, F> where F: FilterEdge<G::EdgeRef>, G: IntoEdgeReferences, I: Iterator<Item = G::EdgeRef>
impl<G, I, F> Iterator for EdgeFilteredEdges<'_, G, I, F>
where
    F: FilterEdge<G::EdgeRef>,
    G: IntoEdgeReferences,
    I: Iterator<Item = G::EdgeRef>,
{
    type Item = I::Item;
    // D25; termination NOT verified (no precondition available on Iterator::next)
    /*+*/#[verifier::exec_allows_no_decreases_clause]/*-*/
    fn next(&mut self) -> Option<Self::Item> {
        let f = self.f;
        /*R:D25 self.iter.find(move |&edge| */ {
            let ghost g = ekeep_f::<G::EdgeRef, F>(f);
            loop
                invariant f == self.f, self.f == old(self).f, g == ekeep_f::<G::EdgeRef, F>(f),
                    self.iter.obeys_prophetic_iter_laws() == old(self).iter.obeys_prophetic_iter_laws(),
                    self.iter.obeys_prophetic_iter_laws() ==> (self.iter.decrease() is Some <==> old(self).iter.decrease() is Some),
                    self.iter.obeys_prophetic_iter_laws() ==> fm_seq(self.iter.remaining(), g) == fm_seq(old(self).iter.remaining(), g),
                    self.iter.obeys_prophetic_iter_laws() && old(self).iter.decrease() is Some ==> self.iter.decrease()->Some_0 <= old(self).iter.decrease()->Some_0,
            {
                let ghost items = self.iter.remaining();
                match self.iter.next() {
                    None => { proof { if self.iter.obeys_prophetic_iter_laws() { assert(items.len() == 0); lemma_fm_none(self.iter.remaining(), g); } } return None; }
                    Some(edge) => {
                        proof { if self.iter.obeys_prophetic_iter_laws() { assert(items.len() > 0 && items[0] == edge); assert(self.iter.remaining() == items.drop_first()); } }
                        let keep = /*-*/ f.include_edge(edge) /*R:D25 ) */;
                        if keep { return Some(edge); }
                    }
                }
            }
        } /*-*/
    }
    /*+*/#[verifier::external_body]/*-*/
    fn size_hint(&self) -> (usize, Option<usize>) {
        let (_, upper) = self.iter.size_hint();
        (0, upper)
    }
}
//@ end

//@ item src/visit/filter.rs | - | struct EdgeFilteredNeighbors
/// A filtered neighbors iterator.
pub struct EdgeFilteredNeighbors<'a, G, F: 'a>
where
    G: IntoEdges,
{
    pub iter: G::Edges,
    pub f: &'a F,
}
//@ end

impl<'a, G: IntoEdges, F: FilterEdge<G::EdgeRef>> EdgeFilteredNeighbors<'a, G, F> {
    #[verifier::prophetic]
    pub open spec fn rem(&self) -> Seq<G::NodeId> { fm_seq(self.iter.remaining(), etgt_f::<G::EdgeRef, F>(self.f)) }
}
impl<'a, G: IntoEdges, F: FilterEdge<G::EdgeRef>> vstd::std_specs::iter::IteratorSpecImpl for EdgeFilteredNeighbors<'a, G, F> {
    open spec fn obeys_prophetic_iter_laws(&self) -> bool { self.iter.obeys_prophetic_iter_laws() }
    #[verifier::prophetic]
    open spec fn remaining(&self) -> Seq<G::NodeId> { self.rem() }
    open spec fn decrease(&self) -> Option<nat> { self.iter.decrease() }
    open spec fn will_return_none(&self) -> bool { true }
    open spec fn peek(&self, i: int) -> Option<G::NodeId> { None }
}

//@ item src/visit/filter.rs | - | impl<G, F> Iterator for EdgeFilteredNeighbors<'_, G, F> where F: FilterEdge<G::EdgeRef>, G: IntoEdges
impl<G, F> Iterator for EdgeFilteredNeighbors<'_, G, F>
where
    F: FilterEdge<G::EdgeRef>,
    G: IntoEdges,
{
    type Item = G::NodeId;
    // D25; termination NOT verified
    /*+*/#[verifier::exec_allows_no_decreases_clause]/*-*/
    fn next(&mut self) -> Option<Self::Item> {
        let f = self.f;
        /*R:D25 (&mut self.iter)
            .filter_map(move |edge| { */ {
            let ghost g = etgt_f::<G::EdgeRef, F>(f);
            loop
                invariant f == self.f, self.f == old(self).f, g == etgt_f::<G::EdgeRef, F>(f),
                    self.iter.obeys_prophetic_iter_laws() == old(self).iter.obeys_prophetic_iter_laws(),
                    self.iter.obeys_prophetic_iter_laws() ==> (self.iter.decrease() is Some <==> old(self).iter.decrease() is Some),
                    self.iter.obeys_prophetic_iter_laws() ==> fm_seq(self.iter.remaining(), g) == fm_seq(old(self).iter.remaining(), g),
                    self.iter.obeys_prophetic_iter_laws() && old(self).iter.decrease() is Some ==> self.iter.decrease()->Some_0 <= old(self).iter.decrease()->Some_0,
            {
                let ghost items = self.iter.remaining();
                match self.iter.next() {
                    None => { proof { if self.iter.obeys_prophetic_iter_laws() { assert(items.len() == 0); lemma_fm_none(self.iter.remaining(), g); } } return None; }
                    Some(edge) => {
                        proof { if self.iter.obeys_prophetic_iter_laws() { assert(items.len() > 0 && items[0] == edge); assert(self.iter.remaining() == items.drop_first()); } }
                        let __m: Option<G::NodeId> = { /*-*/
                if f.include_edge(edge) {
                    Some(edge.target())
                } else {
                    None
                }
            /*R:D25 })
            .next() */ };
                        if let Some(__y) = __m { return Some(__y); }
                    }
                }
            }
        } /*-*/
    }
    /*+*/#[verifier::external_body]/*-*/
    fn size_hint(&self) -> (usize, Option<usize>) {
        let (_, upper) = self.iter.size_hint();
        (0, upper)
    }
}
//@ end

//@ item src/visit/filter.rs | - | struct EdgeFilteredNeighborsDirected
/// A filtered neighbors-directed iterator.
pub struct EdgeFilteredNeighborsDirected<'a, G, F: 'a>
where
    G: IntoEdgesDirected,
{
    pub iter: G::EdgesDirected,
    pub f: &'a F,
    pub from: G::NodeId,
}
//@ end

impl<'a, G: IntoEdgesDirected, F: FilterEdge<G::EdgeRef>> EdgeFilteredNeighborsDirected<'a, G, F> {
    #[verifier::prophetic]
    pub open spec fn rem(&self) -> Seq<G::NodeId> { fm_seq(self.iter.remaining(), efar_f::<G::EdgeRef, F>(self.f, self.from)) }
}
impl<'a, G: IntoEdgesDirected, F: FilterEdge<G::EdgeRef>> vstd::std_specs::iter::IteratorSpecImpl for EdgeFilteredNeighborsDirected<'a, G, F> {
    open spec fn obeys_prophetic_iter_laws(&self) -> bool { self.iter.obeys_prophetic_iter_laws() && <G::NodeId as PartialEqSpec>::obeys_eq_spec() }
    #[verifier::prophetic]
    open spec fn remaining(&self) -> Seq<G::NodeId> { self.rem() }
    open spec fn decrease(&self) -> Option<nat> { self.iter.decrease() }
    open spec fn will_return_none(&self) -> bool { true }
    open spec fn peek(&self, i: int) -> Option<G::NodeId> { None }
}

//@ item src/visit/filter.rs | - | impl<G, F> Iterator for EdgeFilteredNeighborsDirected<'_, G, F> where F: FilterEdge<G::EdgeRef>, G: IntoEdgesDirected
impl<G, F> Iterator for EdgeFilteredNeighborsDirected<'_, G, F>
where
    F: FilterEdge<G::EdgeRef>,
    G: IntoEdgesDirected,
{
    type Item = G::NodeId;
    // D25; termination NOT verified
    /*+*/#[verifier::exec_allows_no_decreases_clause]/*-*/
    fn next(&mut self) -> Option<Self::Item> {
        let f = self.f;
        let from = self.from;
        /*R:D25 (&mut self.iter)
            .filter_map(move |edge| { */ {
            let ghost g = efar_f::<G::EdgeRef, F>(f, from);
            loop
                invariant f == self.f, self.f == old(self).f, from == self.from, self.from == old(self).from, g == efar_f::<G::EdgeRef, F>(f, from),
                    self.iter.obeys_prophetic_iter_laws() == old(self).iter.obeys_prophetic_iter_laws(),
                    self.iter.obeys_prophetic_iter_laws() ==> (self.iter.decrease() is Some <==> old(self).iter.decrease() is Some),
                    self.iter.obeys_prophetic_iter_laws() ==> fm_seq(self.iter.remaining(), g) == fm_seq(old(self).iter.remaining(), g),
                    self.iter.obeys_prophetic_iter_laws() && old(self).iter.decrease() is Some ==> self.iter.decrease()->Some_0 <= old(self).iter.decrease()->Some_0,
            {
                let ghost items = self.iter.remaining();
                match self.iter.next() {
                    None => { proof { if self.iter.obeys_prophetic_iter_laws() { assert(items.len() == 0); lemma_fm_none(self.iter.remaining(), g); } } return None; }
                    Some(edge) => {
                        proof { if self.iter.obeys_prophetic_iter_laws() { assert(items.len() > 0 && items[0] == edge); assert(self.iter.remaining() == items.drop_first()); } }
                        let __m: Option<G::NodeId> = { /*-*/
                if f.include_edge(edge) {
                    if edge.source() != from {
                        Some(edge.source())
                    } else {
                        Some(edge.target()) // includes case where from == source == target
                    }
                } else {
                    None
                }
            /*R:D25 })
            .next() */ };
                        if let Some(__y) = __m { return Some(__y); }
                    }
                }
            }
        } /*-*/
    }
    /*+*/#[verifier::external_body]/*-*/
    fn size_hint(&self) -> (usize, Option<usize>) {
        let (_, upper) = self.iter.size_hint();
        (0, upper)
    }
}
//@ end

/// the included edges and their targets correspond position by position, and every included edge is one of the given ones
pub proof fn lemma_ekeep_etgt<R: EdgeRef, F: FilterEdge<R>>(s: Seq<R>, f: &F)
    ensures fm_seq(s, etgt_f::<R, F>(f)).len() == fm_seq(s, ekeep_f::<R, F>(f)).len(),
        forall|i: int| 0 <= i < fm_seq(s, ekeep_f::<R, F>(f)).len() ==> #[trigger] fm_seq(s, etgt_f::<R, F>(f))[i] == fm_seq(s, ekeep_f::<R, F>(f))[i].tgt()
            && s.contains(fm_seq(s, ekeep_f::<R, F>(f))[i]) && f.einc(fm_seq(s, ekeep_f::<R, F>(f))[i]),
    decreases s.len()
{
    if s.len() > 0 {
        let t = s.drop_first();
        lemma_ekeep_etgt::<R, F>(t, f);
        let fk = ekeep_f::<R, F>(f); let ft = etgt_f::<R, F>(f);
        let k = fm_seq(s, fk); let kt = fm_seq(t, fk); let g = fm_seq(s, ft); let gt = fm_seq(t, ft);
        let hk: Seq<R> = if f.einc(s[0]) { seq![s[0]] } else { Seq::empty() };
        let hg: Seq<R::NodeId> = if f.einc(s[0]) { seq![s[0].tgt()] } else { Seq::empty() };
        assert(fk(s[0]) == (if f.einc(s[0]) { Some(s[0]) } else { None::<R> }));
        assert(ft(s[0]) == (if f.einc(s[0]) { Some(s[0].tgt()) } else { None::<R::NodeId> }));
        assert(k =~= hk + kt); assert(g =~= hg + gt);
        assert forall|i: int| 0 <= i < k.len() implies #[trigger] g[i] == k[i].tgt() && s.contains(k[i]) && f.einc(k[i]) by {
            if i < hk.len() { assert(k[i] == s[0]); assert(g[i] == s[0].tgt()); }
            else {
                let i2 = i - hk.len(); assert(k[i] == kt[i2]); assert(g[i] == gt[i2]);
                assert(gt[i2] == kt[i2].tgt() && t.contains(kt[i2]) && f.einc(kt[i2]));
                let j = choose|j: int| 0 <= j < t.len() && t[j] == kt[i2]; assert(s[j + 1] == t[j]);
            }
        }
    }
}

//@ item src/visit/filter.rs | - | impl<'a, G, F> IntoNeighbors for &'a EdgeFiltered<G, F> where G: IntoEdges, F: FilterEdge<G::EdgeRef>
impl<'a, G, F> IntoNeighbors for &'a EdgeFiltered<G, F>
where
    G: IntoEdges,
    F: FilterEdge<G::EdgeRef>,
{
    type Neighbors = EdgeFilteredNeighbors<'a, G, F>;
    /*+*/
    open spec fn inv(self) -> bool { self.0.inv() }
    open spec fn is_node(self, a: G::NodeId) -> bool { self.0.is_node(a) }
    /// the edge-restricted graph: the targets of the included edges at a, in G's order
    open spec fn succ(self, a: G::NodeId) -> Seq<G::NodeId> { fm_seq(self.0.edges_of(a), etgt_f::<G::EdgeRef, F>(&self.1)) }
    proof fn succ_law(self, a: G::NodeId) {
        let s = self.0.edges_of(a);
        self.0.edges_law(a); self.0.succ_law(a);
        lemma_ekeep_etgt::<G::EdgeRef, F>(s, &self.1);
        assert forall|i: int| 0 <= i < self.succ(a).len() implies self.is_node(#[trigger] self.succ(a)[i]) by {
            let e = fm_seq(s, ekeep_f::<G::EdgeRef, F>(&self.1))[i]; let t_i = fm_seq(s, etgt_f::<G::EdgeRef, F>(&self.1))[i];
            assert(t_i == e.tgt() && s.contains(e));
            let j = choose|j: int| 0 <= j < s.len() && s[j] == e;
            assert(self.0.edges_of(a)[j].src() == a && self.0.edges_of(a)[j].tgt() == self.0.succ(a)[j]); assert(0 <= j < self.0.succ(a).len()); assert(self.0.is_node(self.0.succ(a)[j]));
        }
        if !self.0.is_node(a) { assert(s.len() == 0); }
    }
    /*-*/
    fn neighbors(self, n: G::NodeId) -> Self::Neighbors {
        EdgeFilteredNeighbors {
            iter: self.0.edges(n),
            f: &self.1,
        }
    }
}
//@ end

//@ item src/visit/filter.rs | - | impl<'a, G, F> IntoEdgeReferences for &'a EdgeFiltered<G, F> where G: IntoEdgeReferences, F: FilterEdge<G::EdgeRef>
impl<'a, G, F> IntoEdgeReferences for &'a EdgeFiltered<G, F>
where
    G: IntoEdgeReferences,
    F: FilterEdge<G::EdgeRef>,
{
    type EdgeRef = G::EdgeRef;
    type EdgeReferences = EdgeFilteredEdges<'a, G, G::EdgeReferences, F>;
    /*+*/open spec fn edge_refs(self) -> Seq<G::EdgeRef> { fm_seq(self.0.edge_refs(), ekeep_f::<G::EdgeRef, F>(&self.1)) }/*-*/   // exactly the included edges, in G's order
    fn edge_references(self) -> Self::EdgeReferences {
        EdgeFilteredEdges {
            graph: PhantomData,
            iter: self.0.edge_references(),
            f: &self.1,
        }
    }
}
//@ end

//@ item src/visit/filter.rs | - | impl<'a, G, F> IntoEdges for &'a EdgeFiltered<G, F> where G: IntoEdges, F: FilterEdge<G::EdgeRef>
impl<'a, G, F> IntoEdges for &'a EdgeFiltered<G, F>
where
    G: IntoEdges,
    F: FilterEdge<G::EdgeRef>,
{
    type Edges = EdgeFilteredEdges<'a, G, G::Edges, F>;
    /*+*/
    open spec fn edges_of(self, a: G::NodeId) -> Seq<G::EdgeRef> { fm_seq(self.0.edges_of(a), ekeep_f::<G::EdgeRef, F>(&self.1)) }
    proof fn edges_law(self, a: G::NodeId) {
        let s = self.0.edges_of(a);
        self.0.edges_law(a);
        lemma_ekeep_etgt::<G::EdgeRef, F>(s, &self.1);
        assert forall|i: int| 0 <= i < self.edges_of(a).len() implies (#[trigger] self.edges_of(a)[i]).src() == a && self.edges_of(a)[i].tgt() == self.succ(a)[i] by {
            let e = self.edges_of(a)[i]; let t_i = fm_seq(s, etgt_f::<G::EdgeRef, F>(&self.1))[i];
            assert(t_i == e.tgt() && s.contains(e));
            let j = choose|j: int| 0 <= j < s.len() && s[j] == e;
            assert(self.0.edges_of(a)[j].src() == a && self.0.edges_of(a)[j].tgt() == self.0.succ(a)[j]);
        }
    }
    /*-*/
    fn edges(self, n: G::NodeId) -> Self::Edges {
        EdgeFilteredEdges {
            graph: PhantomData,
            iter: self.0.edges(n),
            f: &self.1,
        }
    }
}
//@ end
