// ======================================================================================
// fragment stable_serde.rs - StableGraph::from_deserialized under contract (C17): whatever input the
// deserialiser hands over - misplaced, duplicated or unsorted holes, endpoints out of range or vacant, sizes at
// the index-type limit - the result is an error or a well-formed StableGraph; no debug assertion fires.
//   D21: `nodes.extend(compact_nodes.by_ref().take(k))` / `nodes.extend(compact_nodes)` (no vstd specification for
//        `Extend`, `by_ref`, `take`) are calls of the TRUSTED helpers extend_take / extend_rest, whose contract is
//        std's: the next min(k, remaining) items, in order, are moved to the end of the vector.
// ======================================================================================
use std::vec::IntoIter;

#[verifier::external_body]
pub fn extend_take<T>(v: &mut Vec<T>, it: &mut IntoIter<T>, k: usize)
    ensures ({ let rem = (*old(it)).remaining(); let m = if k <= rem.len() { k as int } else { rem.len() as int };
        final(v)@ == old(v)@ + rem.take(m) && (*final(it)).remaining() == rem.skip(m) })
{ v.extend(it.by_ref().take(k)) }
#[verifier::external_body]
pub fn extend_rest<T>(v: &mut Vec<T>, it: IntoIter<T>)
    ensures final(v)@ == old(v)@ + it.remaining()
{ v.extend(it) }

/// (a free function, so that the element type of the as yet untyped local `nodes` is fixed by unification)
pub open spec fn nodes_of<N, Ix: IndexType>(v: Vec<Node<Option<N>, Ix>>) -> Seq<Node<Option<N>, Ix>> { v@ }

// (as in graph_serde.rs: the helpers the serde attributes name are pinned by hash)
//@ pin src/graph_impl/stable_graph/serialization.rs | - | fn deser_stable_graph_nodes | 1bc897307a
//@ pin src/graph_impl/stable_graph/serialization.rs | - | fn deser_stable_graph_edges | 1f11caffef
//@ pin src/graph_impl/stable_graph/serialization.rs | - | fn ser_stable_graph_edges | a5a55b6c0d

//@ item src/graph_impl/stable_graph/serialization.rs | - | struct DeserStableGraph | serde=6696fee841
// Deserialization representation for StableGraph
// Keep in sync with serialization and Graph
pub struct DeserStableGraph<N, E, Ix> {
    pub nodes: Vec<Node<Option<N>, Ix>>,
    pub node_holes: Vec<NodeIndex<Ix>>,
    pub edge_property: EdgeProperty,
    pub edges: Vec<Edge<Option<E>, Ix>>,
}
//@ end

/// the node slots as deser_stable_graph_nodes builds them: live, both list heads at `end`
pub open spec fn fresh_live_nodes<N, Ix: IndexType>(ns: Seq<Node<Option<N>, Ix>>) -> bool {
    forall|a: int| 0 <= a < ns.len() ==> (#[trigger] ns[a]).weight is Some && ns[a].next[0].i() == end_ix::<Ix>() && ns[a].next[1].i() == end_ix::<Ix>()
}
//@ item src/graph_impl/stable_graph/serialization.rs | - | impl<N, E, Ty, Ix> FromDeserialized for StableGraph<N, E, Ty, Ix> where Ix: IndexType, Ty: EdgeType
impl<N, E, Ty, Ix> FromDeserialized for StableGraph<N, E, Ty, Ix>
where
    Ix: IndexType,
    Ty: EdgeType,
{
    type Input = DeserStableGraph<N, E, Ix>;
    /*+*/open spec fn input_ok(input: DeserStableGraph<N, E, Ix>) -> bool {
        fresh_live_nodes(input.nodes@) && input.nodes@.len() + input.node_holes@.len() <= usize::MAX   // (allocation limit: both are Vecs of non-zero-sized elements)
    }/*-*/
    fn from_deserialized<E2>(input: Self::Input) -> /*+*/(r:/*-*/ Result<Self, E2>/*+*/)/*-*/
    where
        E2: Error,
        /*+*/ensures
            r is Ok ==> r->Ok_0.wf(),                                                                       // [deser_stable_ok_is_well_formed] never a corrupt graph
            r is Ok ==> ((input.edge_property is Directed) == Ty::spec_is_directed()),                      // [deser_stable_rejects_wrong_edge_property]
            r is Ok ==> r->Ok_0.ns().len() == input.nodes@.len() + input.node_holes@.len() && r->Ok_0.es().len() == input.edges@.len(),
            // the holes are exactly the declared ones, the present nodes keep their order                     [deser_stable_holes_are_the_declared_ones]
            r is Ok ==> (forall|i: int| 0 <= i < input.node_holes@.len() ==> !nlive(r->Ok_0.ns(), (#[trigger] input.node_holes@[i]).i())),
        /*-*/
    {
        let ty = PhantomData::<Ty>::from_deserialized(input.edge_property)?;
        let node_holes = input.node_holes;
        let edges = input.edges;
        if edges.len() >= <Ix as IndexType>::max().index() {
            Err(invalid_length_err::<Ix, _>("edge", edges.len()))?
        }

        let total_nodes = input.nodes.len() + node_holes.len();
        let mut nodes = Vec::with_capacity(total_nodes);

        /*+*/let ghost cn = input.nodes@; let ghost mut used: int = 0; let ghost mut placed: Seq<int> = Seq::empty();/*-*/
        let mut compact_nodes = input.nodes.into_iter();
        let mut node_pos = 0;
        for hole_pos in /*+*/it:/*-*/ node_holes.iter()
            /*+*/invariant
                it.seq().len() == node_holes@.len(), forall|k: int| 0 <= k < it.seq().len() ==> *it.seq()[k] == node_holes@[k],
                total_nodes == cn.len() + node_holes@.len(), fresh_live_nodes(cn),
                0 <= used <= cn.len(), compact_nodes.remaining() == cn.skip(used),
                nodes_of::<N, Ix>(nodes).len() == node_pos, node_pos == used + it.index@, node_pos <= total_nodes,
                placed.len() == it.index@, forall|k: int| 0 <= k < placed.len() ==> placed[k] == node_holes@[k].i() && 0 <= placed[k] < node_pos && nodes_of::<N, Ix>(nodes)[placed[k]].weight is None,
                forall|a: int| 0 <= a < nodes_of::<N, Ix>(nodes).len() ==> (#[trigger] nodes_of::<N, Ix>(nodes)[a]).next[0].i() == end_ix::<Ix>() && nodes_of::<N, Ix>(nodes)[a].next[1].i() == end_ix::<Ix>(),
/*-*/
        {
            /*+*/proof { assert(*hole_pos == it.seq()[it.index@ as int]); }
            let ghost hp = *hole_pos; let ghost nodes0 = nodes_of::<N, Ix>(nodes);/*-*/
            let hole_pos = hole_pos.index();
            if !(node_pos..total_nodes).contains(&hole_pos) {
                return Err(invalid_hole_err(hole_pos));
            }
            /*R:D21 nodes.extend(compact_nodes.by_ref().take(hole_pos - node_pos)); */ extend_take(&mut nodes, &mut compact_nodes, hole_pos - node_pos); /*-*/
            if nodes.len() != hole_pos {
                // there are not enough present nodes to reach this hole position
                return Err(invalid_hole_err(hole_pos));
            }
            nodes.push(Node {
                weight: None,
                next: [EdgeIndex::end(); 2],
            });
            node_pos = hole_pos + 1;
            /*R:D2 debug_assert_eq!(nodes.len(), node_pos); */ let __eq = nodes.len() == node_pos; assert(__eq); /*-*/   // [deser_stable_debug_assertion_never_fires]
            /*+*/proof {
                let m = hole_pos - nodes0.len(); placed = placed.push(hole_pos as int);
                assert(cn.skip(used).take(m) =~= cn.subrange(used, used + m)); assert(cn.skip(used).skip(m) =~= cn.skip(used + m));
                used = used + m;
            }/*-*/
        }
        /*+*/let ghost nodes1 = nodes_of::<N, Ix>(nodes);
        proof { assert(placed.len() == node_holes@.len()); }/*-*/
        /*R:D21 nodes.extend(compact_nodes); */ extend_rest(&mut nodes, compact_nodes); /*-*/
        /*+*/let ghost nodes2 = nodes@;
        proof {
            assert forall|i: int| 0 <= i < node_holes@.len() implies 0 <= (#[trigger] node_holes@[i]).i() < nodes2.len() && nodes2[node_holes@[i].i()].weight is None by {
                assert(placed[i] == node_holes@[i].i()); assert(nodes1[placed[i]].weight is None); assert(nodes2[placed[i]] == nodes1[placed[i]]);
            }
            assert forall|a: int| 0 <= a < nodes2.len() implies (#[trigger] nodes2[a]).next[0].i() == end_ix::<Ix>() && nodes2[a].next[1].i() == end_ix::<Ix>() by {
                if a >= nodes1.len() { let c = used + (a - nodes1.len()); assert(nodes2[a] == cn.skip(used)[a - nodes1.len()]); assert(cn.skip(used)[a - nodes1.len()] == cn[c]); } else { assert(nodes2[a] == nodes1[a]); }
            }
        }/*-*/

        if nodes.len() >= <Ix as IndexType>::max().index() {
            Err(invalid_length_err::<Ix, _>("node", nodes.len()))?
        }

        let node_bound = nodes.len();
        let mut sgr = StableGraph {
            g: Graph { nodes, edges, ty },
            node_count: 0,
            edge_count: 0,
            free_edge: EdgeIndex::end(),
            free_node: NodeIndex::end(),
        };
        sgr.link_edges()
            .map_err(|i/*+*/: NodeIndex<Ix>/*-*/| /*+*/-> (e: E2) {/*-*/ invalid_node_err(i.index(), node_bound) /*+*/}/*-*/)?;
        Ok(sgr)
    }
}
//@ end
