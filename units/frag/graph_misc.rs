// ======================================================================================
// fragment graph_misc.rs - the remaining small public pieces of Graph (C01): the edge-type specific constructors,
// Default, `graph[a]` / `graph[e]` (Index / IndexMut; the documented panic is the negated index_req), into_nodes_edges
// ======================================================================================
use core::ops::{Index, IndexMut};
use vstd::std_specs::core::IndexSpecImpl;

//@ item src/graph_impl/mod.rs | - | impl<N, E> Graph<N, E, Directed>
impl<N, E> Graph<N, E, Directed> {
    /// Create a new `Graph` with directed edges.
    ///
    /// This is a convenience method. Use `Graph::with_capacity` or `Graph::default` for
    /// a constructor that is generic in all the type parameters of `Graph`.
    pub fn new() -> (g: Self)
        /*+*/ensures g.wf(), g.view().nodes.len() == 0, g.view().edges.len() == 0/*-*/   // [new_empty]
    {
        /*+*/let g = {/*-*/ Graph {
            nodes: Vec::new(),
            edges: Vec::new(),
            ty: PhantomData,
        } /*+*/}; proof { assert(g.wf_with(Seq::empty(), Seq::empty())); g.lemma_wf_unique(Seq::empty(), Seq::empty()); } g/*-*/
    }
}
//@ end

//@ item src/graph_impl/mod.rs | - | impl<N, E> Graph<N, E, Undirected>
impl<N, E> Graph<N, E, Undirected> {
    /// Create a new `Graph` with undirected edges.
    ///
    /// This is a convenience method. Use `Graph::with_capacity` or `Graph::default` for
    /// a constructor that is generic in all the type parameters of `Graph`.
    pub fn new_undirected() -> (g: Self)
        /*+*/ensures g.wf(), g.view().nodes.len() == 0, g.view().edges.len() == 0/*-*/   // [new_undirected_empty]
    {
        /*+*/let g = {/*-*/ Graph {
            nodes: Vec::new(),
            edges: Vec::new(),
            ty: PhantomData,
        } /*+*/}; proof { assert(g.wf_with(Seq::empty(), Seq::empty())); g.lemma_wf_unique(Seq::empty(), Seq::empty()); } g/*-*/
    }
}
//@ end

impl<N, E, Ty, Ix> Graph<N, E, Ty, Ix>
where
    Ty: EdgeType,
    Ix: IndexType,
{
//@ item src/graph_impl/mod.rs | impl<N, E, Ty, Ix> Graph<N, E, Ty, Ix> where Ty: EdgeType, Ix: IndexType | fn into_nodes_edges
    #[allow(clippy::type_complexity)]
    /// Convert the graph into a vector of Nodes and a vector of Edges
    pub fn into_nodes_edges(self) -> (r: (Vec<Node<N, Ix>>, Vec<Edge<E, Ix>>))
        /*+*/ensures r.0@ == self.nodes@, r.1@ == self.edges@/*-*/   // [into_nodes_edges_raw]
    {
        (self.nodes, self.edges)
    }
//@ end
}

/*+*/impl<N, E, Ty: EdgeType, Ix: IndexType> IndexSpecImpl<NodeIndex<Ix>> for Graph<N, E, Ty, Ix> {
    /// `graph[a]` panics unless a is a node
    open spec fn index_req(&self, index: &NodeIndex<Ix>) -> bool { self.wf() && index.i() < self.n() }
}
impl<N, E, Ty: EdgeType, Ix: IndexType> IndexSpecImpl<EdgeIndex<Ix>> for Graph<N, E, Ty, Ix> {
    /// `graph[e]` panics unless e is an edge
    open spec fn index_req(&self, index: &EdgeIndex<Ix>) -> bool { self.wf() && index.i() < self.m() }
}/*-*/

//@ item src/graph_impl/mod.rs | - | impl<N, E, Ty, Ix> Index<NodeIndex<Ix>> for Graph<N, E, Ty, Ix> where Ty: EdgeType, Ix: IndexType
/// Index the `Graph` by `NodeIndex` to access node weights.
///
/// **Panics** if the node doesn't exist.
impl<N, E, Ty, Ix> Index<NodeIndex<Ix>> for Graph<N, E, Ty, Ix>
where
    Ty: EdgeType,
    Ix: IndexType,
{
    type Output = N;
    fn index(&self, index: NodeIndex<Ix>) -> /*+*/(r:/*-*/ &N/*+*/)
        ensures *r == self.view().nodes[index.i()]/*-*/   // [index_node_view]
    {
        &self.nodes[index.index()].weight
    }
}
//@ end

//@ item src/graph_impl/mod.rs | - | impl<N, E, Ty, Ix> IndexMut<NodeIndex<Ix>> for Graph<N, E, Ty, Ix> where Ty: EdgeType, Ix: IndexType
/// Index the `Graph` by `NodeIndex` to access node weights.
///
/// **Panics** if the node doesn't exist.
impl<N, E, Ty, Ix> IndexMut<NodeIndex<Ix>> for Graph<N, E, Ty, Ix>
where
    Ty: EdgeType,
    Ix: IndexType,
{
    fn index_mut(&mut self, index: NodeIndex<Ix>) -> /*+*/(r:/*-*/ &mut N/*+*/)
        ensures *r == old(self).view().nodes[index.i()], final(self).wf(),
            final(self).view() == old(self).view().set_node_weight(index.i(), *final(r))/*-*/   // [index_mut_node_view]
    {
        /*+*/let ghost fin = *final(self); let ghost o = *old(self);
        let r = {/*-*/ &mut self.nodes[index.index()].weight /*+*/};
        proof {
            fin.lemma_weights_only(&o);
            assert(fin.node_ws() =~= o.node_ws().update(index.i(), *final(r)));
            assert(fin.edge_ps() =~= o.edge_ps());
        }
        r/*-*/
    }
}
//@ end

//@ item src/graph_impl/mod.rs | - | impl<N, E, Ty, Ix> Index<EdgeIndex<Ix>> for Graph<N, E, Ty, Ix> where Ty: EdgeType, Ix: IndexType
/// Index the `Graph` by `EdgeIndex` to access edge weights.
///
/// **Panics** if the edge doesn't exist.
impl<N, E, Ty, Ix> Index<EdgeIndex<Ix>> for Graph<N, E, Ty, Ix>
where
    Ty: EdgeType,
    Ix: IndexType,
{
    type Output = E;
    fn index(&self, index: EdgeIndex<Ix>) -> /*+*/(r:/*-*/ &E/*+*/)
        ensures *r == self.view().edges[index.i()].2/*-*/   // [index_edge_view]
    {
        &self.edges[index.index()].weight
    }
}
//@ end

//@ item src/graph_impl/mod.rs | - | impl<N, E, Ty, Ix> IndexMut<EdgeIndex<Ix>> for Graph<N, E, Ty, Ix> where Ty: EdgeType, Ix: IndexType
/// Index the `Graph` by `EdgeIndex` to access edge weights.
///
/// **Panics** if the edge doesn't exist.
impl<N, E, Ty, Ix> IndexMut<EdgeIndex<Ix>> for Graph<N, E, Ty, Ix>
where
    Ty: EdgeType,
    Ix: IndexType,
{
    fn index_mut(&mut self, index: EdgeIndex<Ix>) -> /*+*/(r:/*-*/ &mut E/*+*/)
        ensures *r == old(self).view().edges[index.i()].2, final(self).wf(),
            final(self).view() == old(self).view().set_edge_weight(index.i(), *final(r))/*-*/   // [index_mut_edge_view]
    {
        /*+*/let ghost fin = *final(self); let ghost o = *old(self);
        let r = {/*-*/ &mut self.edges[index.index()].weight /*+*/};
        proof {
            fin.lemma_weights_only(&o);
            assert(fin.node_ws() =~= o.node_ws());
            assert(fin.edge_ps() =~= o.edge_ps().update(index.i(), (o.edge_ps()[index.i()].0, o.edge_ps()[index.i()].1, *final(r))));
        }
        r/*-*/
    }
}
//@ end

//@ item src/graph_impl/mod.rs | - | impl<N, E, Ty, Ix> Default for Graph<N, E, Ty, Ix> where Ty: EdgeType, Ix: IndexType
/// Create a new empty `Graph`.
impl<N, E, Ty, Ix> Default for Graph<N, E, Ty, Ix>
where
    Ty: EdgeType,
    Ix: IndexType,
{
    fn default() -> /*+*/(g:/*-*/ Self/*+*/)
        ensures g.wf(), g.view().nodes.len() == 0, g.view().edges.len() == 0/*-*/   // [default_empty]
    {
        Self::with_capacity(0, 0)
    }
}
//@ end
