/// the repository refers to the traits as `visit::Trait`
pub mod visit {
    pub use super::*;
}
