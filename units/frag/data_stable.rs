// ======================================================================================
// fragment data_stable.rs - src/data.rs: StableGraph as a Build / Create / DataMap / DataMapMut (C02): each trait method is the
// inherent method of the same name, and `Build::add_edge` ALWAYS adds a new (possibly parallel) edge, at an index that was not live
// ======================================================================================

//@ item src/data.rs | - | impl<N, E, Ty, Ix> DataMap for StableGraph<N, E, Ty, Ix> where Ty: EdgeType, Ix: IndexType
impl<N, E, Ty, Ix> DataMap for StableGraph<N, E, Ty, Ix>
where
    Ty: EdgeType,
    Ix: IndexType,
{
    /*+*/
    open spec fn nweight(&self, id: NodeIndex<Ix>) -> Option<N> { if nlive(self.ns(), id.i()) { self.view().nodes[id.i()] } else { None } }
    open spec fn eweight(&self, id: EdgeIndex<Ix>) -> Option<E> {
        if 0 <= id.i() < self.view().edges.len() { match self.view().edges[id.i()] { Some(t) => Some(t.2), None => None } } else { None }
    }
    /*-*/
    fn node_weight(&self, id: Self::NodeId) -> Option<&Self::NodeWeight> {
        self.node_weight(id)
    }
    fn edge_weight(&self, id: Self::EdgeId) -> Option<&Self::EdgeWeight> {
        self.edge_weight(id)
    }
}
//@ end

//@ item src/data.rs | - | impl<N, E, Ty, Ix> DataMapMut for StableGraph<N, E, Ty, Ix> where Ty: EdgeType, Ix: IndexType
impl<N, E, Ty, Ix> DataMapMut for StableGraph<N, E, Ty, Ix>
where
    Ty: EdgeType,
    Ix: IndexType,
{
    /*+*/
    open spec fn dm_inv(&self) -> bool { self.wf() }
    /*-*/
    fn node_weight_mut(&mut self, id: Self::NodeId) -> /*+*/(r:/*-*/ Option<&mut Self::NodeWeight>/*+*/)
        ensures r is Some ==> final(self).view() == old(self).view().set_node_weight(id.i(), *final(r.unwrap()))/*-*/   // [datamapmut_stable_only_that_weight]
    {
        /*+*/let ghost fin = *final(self); let ghost o = *old(self);
        let r = {/*-*/ self.node_weight_mut(id) /*+*/};
        proof { if r is None { fin.lemma_same_state(&o, -1); } else { assert(fin.ns().len() == o.ns().len()); } }
        r/*-*/
    }
    fn edge_weight_mut(&mut self, id: Self::EdgeId) -> /*+*/(r:/*-*/ Option<&mut Self::EdgeWeight>/*+*/)
        ensures r is Some ==> final(self).view() == old(self).view().set_edge_weight(id.i(), *final(r.unwrap()))/*-*/   // [datamapmut_stable_only_that_weight]
    {
        /*+*/let ghost fin = *final(self); let ghost o = *old(self);
        let r = {/*-*/ self.edge_weight_mut(id) /*+*/};
        proof { if r is None { fin.lemma_same_state(&o, -1); } else { assert(fin.view().edges.len() == o.view().edges.len()); assert(fin.view().edges[id.i()] == o.view().set_edge_weight(id.i(), *final(r.unwrap())).edges[id.i()]); } }
        r/*-*/
    }
}
//@ end

//@ item src/data.rs | - | impl<N, E, Ty, Ix> Build for StableGraph<N, E, Ty, Ix> where Ty: EdgeType, Ix: IndexType | provided=src/data.rs:trait Build:add_edge
impl<N, E, Ty, Ix> Build for StableGraph<N, E, Ty, Ix>
where
    Ty: EdgeType,
    Ix: IndexType,
{
    /*+*/
    open spec fn add_node_pre(&self) -> bool {
        self.wf() && self.node_count < usize::MAX && (self.free_node.i() != end_ix::<Ix>() || end_ix::<Ix>() == usize::MAX || self.ns().len() < end_ix::<Ix>())
    }
    open spec fn add_edge_pre(&self, a: NodeIndex<Ix>, b: NodeIndex<Ix>) -> bool {
        self.wf() && self.edge_count < usize::MAX && nlive(self.ns(), a.i()) && nlive(self.ns(), b.i())
            && !(self.free_edge.i() == end_ix::<Ix>() && end_ix::<Ix>() != usize::MAX && self.es().len() == end_ix::<Ix>())
    }
    open spec fn update_edge_pre(&self, a: NodeIndex<Ix>, b: NodeIndex<Ix>) -> bool {
        self.wf() && self.edge_count < usize::MAX && (self.view().find(Ty::spec_is_directed(), a.i(), b.i()) is None ==> self.add_edge_pre(a, b))
    }
    open spec fn node_added(pre: &Self, w: N, post: &Self, n: NodeIndex<Ix>) -> bool {
        &&& post.wf() && !nlive(pre.ns(), n.i()) && nlive(post.ns(), n.i()) && post.ns()[n.i()].weight == Some(w)
        &&& forall|x: int| 0 <= x < pre.ns().len() && x != n.i() ==> (#[trigger] post.ns()[x]).weight == pre.ns()[x].weight
        &&& post.es() == pre.es() && post.node_count == pre.node_count + 1 && post.edge_count == pre.edge_count
    }
    /// a NEW edge at an index that was not live, whatever edges a -> b exist already
    open spec fn edge_added(pre: &Self, a: NodeIndex<Ix>, b: NodeIndex<Ix>, w: E, post: &Self, e: EdgeIndex<Ix>) -> bool {
        post.wf() && !elive(pre.es(), e.i()) && post.view() == pre.view().add_edge_at(e.i(), a.i(), b.i(), w)
    }
    open spec fn edge_put(pre: &Self, a: NodeIndex<Ix>, b: NodeIndex<Ix>, w: E, post: &Self, e: EdgeIndex<Ix>) -> bool {
        post.wf() && match pre.view().find(Ty::spec_is_directed(), a.i(), b.i()) {
            Some((ev, d)) => e.i() == ev && post.view() == pre.view().set_edge_weight(ev, w),
            None => !elive(pre.es(), e.i()) && post.view() == pre.view().add_edge_at(e.i(), a.i(), b.i(), w),
        }
    }
    /*-*/
    fn add_node(&mut self, weight: Self::NodeWeight) -> Self::NodeId {
        self.add_node(weight)
    }
    fn add_edge(
        &mut self,
        a: Self::NodeId,
        b: Self::NodeId,
        weight: Self::EdgeWeight,
    ) -> Option<Self::EdgeId> {
        Some(self.add_edge(a, b, weight))
    }
    fn update_edge(
        &mut self,
        a: Self::NodeId,
        b: Self::NodeId,
        weight: Self::EdgeWeight,
    ) -> Self::EdgeId {
        self.update_edge(a, b, weight)
    }
}
//@ end

//@ item src/data.rs | - | impl<N, E, Ty, Ix> Create for StableGraph<N, E, Ty, Ix> where Ty: EdgeType, Ix: IndexType
impl<N, E, Ty, Ix> Create for StableGraph<N, E, Ty, Ix>
where
    Ty: EdgeType,
    Ix: IndexType,
{
    /*+*/
    open spec fn is_empty_graph(&self) -> bool { self.wf() && self.ns().len() == 0 && self.es().len() == 0 && self.node_count == 0 && self.edge_count == 0 }
    /*-*/
    fn with_capacity(nodes: usize, edges: usize) -> Self {
        Self::with_capacity(nodes, edges)
    }
}
//@ end
