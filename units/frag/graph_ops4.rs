// ======================================================================================
// fragment graph_ops4.rs - add_edge, reverse, link_edges (C01, C17)
// ======================================================================================
impl<N, E, Ty, Ix> Graph<N, E, Ty, Ix>
where
    Ty: EdgeType,
    Ix: IndexType,
{
//@ item src/graph_impl/mod.rs | impl<N, E, Ty, Ix> Graph<N, E, Ty, Ix> where Ty: EdgeType, Ix: IndexType | fn add_edge
    #[track_caller]
    pub fn add_edge(&mut self, a: NodeIndex<Ix>, b: NodeIndex<Ix>, weight: E) -> (r: EdgeIndex<Ix>)
        /*+*/requires old(self).wf(),
            a.i() < old(self).n() && b.i() < old(self).n(),                        // [add_edge_panics_iff_oob]
            end_ix::<Ix>() == usize::MAX || old(self).m() < end_ix::<Ix>(),       // [add_edge_panics_iff_full]
        ensures final(self).wf(), r.i() == old(self).m(),
            final(self).view() == old(self).view().add_edge(a.i(), b.i(), weight)/*-*/,   // [add_edge_view]
    {
        let res = self.try_add_edge(a, b, weight);
        if res == Err(GraphError::NodeOutBounds) {
            panic!("Graph::add_edge: node indices out of bounds");
        }
        res.unwrap()
    }
//@ end
}

/// lists over the edges with index below `upto` only (state of link_edges after `upto` edges)
pub open spec fn lists_ok_prefix<N, E, Ix: IndexType>(ns: Seq<Node<N, Ix>>, es: Seq<Edge<E, Ix>>, k: int, ls: Seq<Seq<int>>, upto: int) -> bool {
    &&& ls.len() == ns.len()
    &&& forall|a: int| 0 <= a < ns.len() ==> slist(es, ns[a].next[k], k, #[trigger] ls[a]) && no_dup(ls[a])
    &&& forall|a: int, i: int| 0 <= a < ns.len() && 0 <= i < ls[a].len() ==> 0 <= #[trigger] ls[a][i] < upto && es[ls[a][i]].node[k].0.ix() == a
    &&& forall|e: int| 0 <= e < upto ==> (#[trigger] es[e]).node[k].0.ix() < ns.len() && ls[es[e].node[k].0.ix() as int].contains(e)
}
/// one step of link_edges: edge i (endpoint x in direction k) is linked at the head of x's k-list
#[verifier::spinoff_prover]
pub proof fn lemma_link_step<N, E, Ix: IndexType>(ns0: Seq<Node<N, Ix>>, es0: Seq<Edge<E, Ix>>, ns1: Seq<Node<N, Ix>>, es1: Seq<Edge<E, Ix>>, k: int, ls: Seq<Seq<int>>, x: int, i: int)
    requires 0 <= k < 2, lists_ok_prefix(ns0, es0, k, ls, i), 0 <= i < es0.len(), es0.len() <= end_ix::<Ix>(), 0 <= x < ns0.len(),
        ns1.len() == ns0.len(), es1.len() == es0.len(),
        forall|j: int| 0 <= j < es0.len() && j != i ==> #[trigger] es1[j] == es0[j],
        es1[i].node == es0[i].node, es0[i].node[k].0.ix() == x, es1[i].next[k] == ns0[x].next[k],
        ns1[x].next[k].0.ix() == i,
        forall|y: int| 0 <= y < ns0.len() && y != x ==> (#[trigger] ns1[y]).next[k] == ns0[y].next[k],
    ensures lists_ok_prefix(ns1, es1, k, ls.update(x, seq![i] + ls[x]), i + 1)
{
    let ls1 = ls.update(x, seq![i] + ls[x]);
    assert forall|a: int| 0 <= a < ns1.len() implies slist(es1, ns1[a].next[k], k, #[trigger] ls1[a]) && no_dup(ls1[a]) by {
        let sa = ls[a];
        lemma_slist_range(es0, ns0[a].next[k], k, sa);
        lemma_slist_is_tchain(es0, ns0[a].next[k], k, sa);
        assert forall|j: int| 0 <= j < sa.len() implies (#[trigger] sa[j]) < es1.len() && es1[sa[j]].next[k] == es0[sa[j]].next[k] by { assert(ls[a][j] < i); }
        lemma_tchain_frame(es0, es1, ns0[a].next[k], k, sa, end_ix::<Ix>() as int);
        lemma_tchain_is_slist(es1, ns0[a].next[k], k, sa);
        if a == x {
            let t = seq![i] + sa;
            assert(t.drop_first() =~= sa);
            assert(slist(es1, ns1[x].next[k], k, t));
            assert forall|p: int, q: int| 0 <= p < q < t.len() implies t[p] != t[q] by { if p == 0 { assert(t[q] == ls[a][q - 1]); } else { assert(t[p] == sa[p - 1]); assert(t[q] == sa[q - 1]); } }
        } else { assert(ls1[a] == ls[a]); }
    }
    assert forall|a: int, j: int| 0 <= a < ns1.len() && 0 <= j < ls1[a].len() implies 0 <= #[trigger] ls1[a][j] < i + 1 && es1[ls1[a][j]].node[k].0.ix() == a by {
        if a == x { if j > 0 { assert(ls1[a][j] == ls[a][j - 1]); } } else { assert(ls1[a] == ls[a]); }
    }
    assert forall|e: int| 0 <= e < i + 1 implies (#[trigger] es1[e]).node[k].0.ix() < ns1.len() && ls1[es1[e].node[k].0.ix() as int].contains(e) by {
        if e == i { assert(ls1[x][0] == i); }
        else { let a = es0[e].node[k].0.ix() as int; assert(ls[a].contains(e)); let j = choose|j: int| 0 <= j < ls[a].len() && ls[a][j] == e; if a == x { assert(ls1[a][j + 1] == e); } else { assert(ls1[a][j] == e); } }
    }
}

impl<N, E, Ty, Ix> Graph<N, E, Ty, Ix>
where
    Ty: EdgeType,
    Ix: IndexType,
{
//@ item src/graph_impl/mod.rs | impl<N, E, Ty, Ix> Graph<N, E, Ty, Ix> where Ty: EdgeType, Ix: IndexType | fn link_edges | props=C01,C17
    /// Fix up node and edge links after deserialization
    /*+*/#[verifier::spinoff_prover]/*-*/
    fn link_edges(&mut self) -> (res: Result<(), NodeIndex<Ix>>)
        /*+*/requires old(self).n() <= end_ix::<Ix>(), old(self).m() <= end_ix::<Ix>(),
            forall|a: int| 0 <= a < old(self).n() ==> (#[trigger] old(self).nodes@[a]).next[0].i() == end_ix::<Ix>() && old(self).nodes@[a].next[1].i() == end_ix::<Ix>(),   // as produced by the node deserialiser
        ensures
            res is Ok ==> final(self).wf(),                                                                    // [link_edges_ok_means_well_formed] no corrupt graph from bad input
            res is Ok <==> (forall|e: int| 0 <= e < old(self).m() ==> (#[trigger] old(self).edges@[e]).node[0].i() < old(self).n() && old(self).edges@[e].node[1].i() < old(self).n()),   // [link_edges_accepts_exactly_in_range_endpoints]
            final(self).n() == old(self).n() && final(self).m() == old(self).m(),
            forall|a: int| 0 <= a < old(self).n() ==> (#[trigger] final(self).nodes@[a]).weight == old(self).nodes@[a].weight,
            forall|e: int| 0 <= e < old(self).m() ==> (#[trigger] final(self).edges@[e]).weight == old(self).edges@[e].weight && final(self).edges@[e].node == old(self).edges@[e].node/*-*/,   // [link_edges_keeps_payload]
    {
        /*+*/let ghost mut out: Seq<Seq<int>> = Seq::new(self.nodes@.len(), |a: int| Seq::<int>::empty());
        let ghost mut inn: Seq<Seq<int>> = Seq::new(self.nodes@.len(), |a: int| Seq::<int>::empty());/*-*/
        /*R:D6 for (edge_index, edge) in enumerate(&mut self.edges) */ let mut __i = 0usize; loop 
            invariant __i <= self.edges@.len(), self.n() == old(self).n() && self.m() == old(self).m(), self.n() <= end_ix::<Ix>(), self.m() <= end_ix::<Ix>(),
                lists_ok_prefix(self.nodes@, self.edges@, 0, out, __i as int),
                lists_ok_prefix(self.nodes@, self.edges@, 1, inn, __i as int),
                forall|a: int| 0 <= a < old(self).n() ==> (#[trigger] self.nodes@[a]).weight == old(self).nodes@[a].weight,
                forall|e: int| 0 <= e < old(self).m() ==> (#[trigger] self.edges@[e]).weight == old(self).edges@[e].weight && self.edges@[e].node == old(self).edges@[e].node,
            ensures __i >= self.edges@.len(),
            decreases self.edges@.len() - __i/*-*/
        {
            /*+*/if __i >= self.edges.len() { break; } let edge_index = __i; let ghost ns0 = self.nodes@; let ghost es0 = self.edges@; let edge = &mut self.edges[edge_index]; __i += 1;/*-*/
            let a = edge.source();
            let b = edge.target();
            let edge_idx = EdgeIndex::new(edge_index);
            match index_twice(&mut self.nodes, a.index(), b.index()) {
                Pair::None => /*+*/{ proof { assert(es0[edge_index as int].node == old(self).edges@[edge_index as int].node);
                    assert(!(old(self).edges@[edge_index as int].node[0].i() < old(self).n() && old(self).edges@[edge_index as int].node[1].i() < old(self).n())); }/*-*/ return Err(if a > b { a } else { b }) /*+*/}/*-*/,
                Pair::One(an) => {
                    edge.next = an.next;
                    an.next[0] = edge_idx;
                    an.next[1] = edge_idx;
                }
                Pair::Both(an, bn) => {
                    // a and b are different indices
                    edge.next = [an.next[0], bn.next[1]];
                    an.next[0] = edge_idx;
                    bn.next[1] = edge_idx;
                }
            }
            /*+*/proof {
                let i = edge_index as int; let ai = a.i(); let bi = b.i();
                lemma_link_step(ns0, es0, self.nodes@, self.edges@, 0, out, ai, i);
                lemma_link_step(ns0, es0, self.nodes@, self.edges@, 1, inn, bi, i);
                out = out.update(ai, seq![i] + out[ai]);
                inn = inn.update(bi, seq![i] + inn[bi]);
            }/*-*/
        }
        /*+*/proof {
            assert(self.wf_with(out, inn));
            self.lemma_wf_unique(out, inn);
            assert forall|e: int| 0 <= e < old(self).m() implies (#[trigger] old(self).edges@[e]).node[0].i() < old(self).n() && old(self).edges@[e].node[1].i() < old(self).n() by {
                assert(self.edges@[e].node == old(self).edges@[e].node);
                assert(self.edges@[e].node[0].0.ix() < self.nodes@.len()); assert(self.edges@[e].node[1].0.ix() < self.nodes@.len());
            }
        }/*-*/
        Ok(())
    }
//@ end
}
