// ======================================================================================
// fragment graph_ops4.rs - add_edge, reverse, link_edges (C01, C17)
// ======================================================================================
impl<N, E, Ty, Ix> Graph<N, E, Ty, Ix>
where
    Ty: EdgeType,
    Ix: IndexType,
{
//@ item src/graph_impl/mod.rs | impl<N, E, Ty, Ix> Graph<N, E, Ty, Ix> where Ty: EdgeType, Ix: IndexType | fn add_edge
    #[track_caller]
    pub fn add_edge(&mut self, a: NodeIndex<Ix>, b: NodeIndex<Ix>, weight: E) -> (r: EdgeIndex<Ix>)
        /*+*/requires old(self).wf(),
            a.i() < old(self).n() && b.i() < old(self).n(),                        // [add_edge_panics_iff_oob]
            end_ix::<Ix>() == usize::MAX || old(self).m() < end_ix::<Ix>(),       // [add_edge_panics_iff_full]
        ensures final(self).wf(), r.i() == old(self).m(),
            final(self).view() == old(self).view().add_edge(a.i(), b.i(), weight)/*-*/,   // [add_edge_view]
    {
        let res = self.try_add_edge(a, b, weight);
        if res == Err(GraphError::NodeOutBounds) {
            panic!("Graph::add_edge: node indices out of bounds");
        }
        res.unwrap()
    }
//@ end
}
