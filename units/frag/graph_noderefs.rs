// ======================================================================================
// fragment graph_noderefs.rs - Graph: node_references (IntoNodeReferences, both ends) and the weight iterators
// node_weights / edge_weights (C01, C06): every node / edge once, in index order, with its own weight.
// `NodeReferences` wraps `iter::Enumerate<slice::Iter<Node>>` (constructor assumption `enumerate_slice`, D23);
// `NodeWeights` / `EdgeWeights` wrap `slice::Iter`, which vstd specifies.
// ======================================================================================

pub open spec fn gnref_of<'a, N, Ix: IndexType>(t: (usize, &'a Node<N, Ix>)) -> (NodeIndex<Ix>, &'a N) { (NodeIndex(Ix::spec_new(t.0)), &t.1.weight) }
pub open spec fn gnrefs_of<'a, N, Ix: IndexType>(s: Seq<(usize, &'a Node<N, Ix>)>) -> Seq<(NodeIndex<Ix>, &'a N)> { Seq::new(s.len(), |k: int| gnref_of(s[k])) }

//@ item src/graph_impl/mod.rs | - | struct NodeReferences
/// Iterator over all nodes of a graph.
/*+*/#[verifier::reject_recursive_types(N)]
#[verifier::reject_recursive_types(Ix)]/*-*/
pub struct NodeReferences<'a, N: 'a, Ix: IndexType = DefaultIx> {
    pub iter: iter::Enumerate<slice::Iter<'a, Node<N, Ix>>>,
}
//@ end

impl<'a, N, Ix: IndexType> NodeReferences<'a, N, Ix> {
    #[verifier::prophetic]
    pub open spec fn rest(&self) -> Seq<(NodeIndex<Ix>, &'a N)> { gnrefs_of(self.iter.remaining()) }
}
impl<'a, N, Ix: IndexType> vstd::std_specs::iter::IteratorSpecImpl for NodeReferences<'a, N, Ix> {
    open spec fn obeys_prophetic_iter_laws(&self) -> bool { self.iter.obeys_prophetic_iter_laws() }
    #[verifier::prophetic]
    open spec fn remaining(&self) -> Seq<(NodeIndex<Ix>, &'a N)> { self.rest() }
    open spec fn decrease(&self) -> Option<nat> { self.iter.decrease() }
    open spec fn will_return_none(&self) -> bool { true }
    open spec fn peek(&self, i: int) -> Option<(NodeIndex<Ix>, &'a N)> { None }
}
impl<'a, N, Ix: IndexType> vstd::std_specs::iter::DoubleEndedIteratorSpecImpl for NodeReferences<'a, N, Ix> {
    open spec fn peek_back(&self, i: int) -> Option<(NodeIndex<Ix>, &'a N)> { None }
}

//@ item src/graph_impl/mod.rs | - | impl<'a, N, Ix> Iterator for NodeReferences<'a, N, Ix> where Ix: IndexType
impl<'a, N, Ix> Iterator for NodeReferences<'a, N, Ix>
where
    Ix: IndexType,
{
    type Item = (NodeIndex<Ix>, &'a N);

    fn next(&mut self) -> Option<Self::Item> {
        /*+*/let ghost items = self.iter.remaining();
        let r = {/*-*/ self.iter
            .next()
            .map(|/*R:D10 (i, node) */ __t: (usize, &'a Node<N, Ix>) /*-*/| /*+*/-> (x: (NodeIndex<Ix>, &'a N)) ensures x == gnref_of(__t) { let (i, node) = __t;/*-*/ (node_index(i), &node.weight) /*+*/}/*-*/) /*+*/};
        proof { if old(self).iter.obeys_prophetic_iter_laws() {
            if r is Some { assert(items.len() > 0 && r.unwrap() == gnref_of(items[0])); assert(self.iter.remaining() == items.drop_first()); assert(old(self).rest() =~= seq![r.unwrap()] + self.rest()); }
            else { assert(self.rest() =~= Seq::<(NodeIndex<Ix>, &'a N)>::empty()); } } }
        r/*-*/
    }

    /*+*/#[verifier::external_body]/*-*/
    fn size_hint(&self) -> (usize, Option<usize>) {
        self.iter.size_hint()
    }
}
//@ end

//@ item src/graph_impl/mod.rs | - | impl<N, Ix> DoubleEndedIterator for NodeReferences<'_, N, Ix> where Ix: IndexType
impl</*R:D31 */ 'a, /*-*/N, Ix> DoubleEndedIterator for NodeReferences</*R:D31 '_ */ 'a /*-*/, N, Ix>
where
    Ix: IndexType,
{
    fn next_back(&mut self) -> Option<Self::Item> {
        /*+*/let ghost items = self.iter.remaining();
        let r = {/*-*/ self.iter
            .next_back()
            .map(|/*R:D10 (i, node) */ __t: (usize, &'a Node<N, Ix>) /*-*/| /*+*/-> (x: (NodeIndex<Ix>, &'a N)) ensures x == gnref_of(__t) { let (i, node) = __t;/*-*/ (node_index(i), &node.weight) /*+*/}/*-*/) /*+*/};
        proof { if old(self).iter.obeys_prophetic_iter_laws() {
            if r is Some { assert(items.len() > 0 && r.unwrap() == gnref_of(items.last())); assert(self.iter.remaining() == items.drop_last()); assert(old(self).rest() =~= self.rest().push(r.unwrap())); }
            else { assert(self.rest() =~= Seq::<(NodeIndex<Ix>, &'a N)>::empty()); } } }
        r/*-*/
    }
}
//@ end

//@ item src/graph_impl/mod.rs | - | impl<'a, N, E, Ty, Ix> visit::IntoNodeReferences for &'a Graph<N, E, Ty, Ix> where Ty: EdgeType, Ix: IndexType
impl<'a, N, E, Ty, Ix> visit::IntoNodeReferences for &'a Graph<N, E, Ty, Ix>
where
    Ty: EdgeType,
    Ix: IndexType,
{
    type NodeRef = (NodeIndex<Ix>, &'a N);
    type NodeReferences = NodeReferences<'a, N, Ix>;
    fn node_references(self) -> /*+*/(r:/*-*/ Self::NodeReferences/*+*/)
        ensures forall|k: int| 0 <= k < self.nodes@.len() ==> *(#[trigger] r.remaining()[k]).1 == self.nodes@[k].weight/*-*/   // [node_references_show_own_weight]
    {
        /*+*/let r = {/*-*/ NodeReferences {
            iter: /*R:D23 self.nodes.iter().enumerate() */ enumerate_slice(self.nodes.as_slice()) /*-*/,
        } /*+*/};
        proof { assert(r.remaining().len() == self.node_ids().len()); }
        r/*-*/
    }
}
//@ end

//@ item src/graph_impl/mod.rs | - | struct NodeWeights
/// Iterator yielding immutable access to all node weights.
pub struct NodeWeights<'a, N: 'a, Ix: IndexType = DefaultIx> {
    pub nodes: ::core::slice::Iter<'a, Node<N, Ix>>,
}
//@ end
pub open spec fn nweights_of<'a, N, Ix: IndexType>(s: Seq<&'a Node<N, Ix>>) -> Seq<&'a N> { Seq::new(s.len(), |k: int| &s[k].weight) }
impl<'a, N, Ix: IndexType> NodeWeights<'a, N, Ix> {
    #[verifier::prophetic]
    pub open spec fn rest(&self) -> Seq<&'a N> { nweights_of(IteratorSpec::remaining(&self.nodes)) }
}
impl<'a, N, Ix: IndexType> vstd::std_specs::iter::IteratorSpecImpl for NodeWeights<'a, N, Ix> {
    open spec fn obeys_prophetic_iter_laws(&self) -> bool { true }
    #[verifier::prophetic]
    open spec fn remaining(&self) -> Seq<&'a N> { self.rest() }
    open spec fn decrease(&self) -> Option<nat> { IteratorSpec::decrease(&self.nodes) }
    open spec fn will_return_none(&self) -> bool { true }
    open spec fn peek(&self, i: int) -> Option<&'a N> { None }
}

//@ item src/graph_impl/mod.rs | - | impl<'a, N, Ix> Iterator for NodeWeights<'a, N, Ix> where Ix: IndexType
impl<'a, N, Ix> Iterator for NodeWeights<'a, N, Ix>
where
    Ix: IndexType,
{
    type Item = &'a N;

    fn next(&mut self) -> Option<&'a N> {
        /*+*/let ghost items = IteratorSpec::remaining(&self.nodes);
        let r = {/*-*/ self.nodes.next().map(|node/*+*/: &'a Node<N, Ix>/*-*/| /*+*/-> (w: &'a N) ensures *w == node.weight {/*-*/ &node.weight /*+*/}/*-*/) /*+*/};
        proof {
            if r is Some { assert(items.len() > 0 && *r.unwrap() == items[0].weight); assert(IteratorSpec::remaining(&self.nodes) == items.drop_first()); assert(old(self).rest() =~= seq![r.unwrap()] + self.rest()); }
            else { assert(self.rest() =~= Seq::<&'a N>::empty()); } }
        r/*-*/
    }

    /*+*/#[verifier::external_body]/*-*/
    fn size_hint(&self) -> (usize, Option<usize>) {
        self.nodes.size_hint()
    }
}
//@ end

//@ item src/graph_impl/mod.rs | - | struct EdgeWeights
/// Iterator yielding immutable access to all edge weights.
pub struct EdgeWeights<'a, E: 'a, Ix: IndexType = DefaultIx> {
    pub edges: ::core::slice::Iter<'a, Edge<E, Ix>>,
}
//@ end
pub open spec fn eweights_of<'a, E, Ix: IndexType>(s: Seq<&'a Edge<E, Ix>>) -> Seq<&'a E> { Seq::new(s.len(), |k: int| &s[k].weight) }
impl<'a, E, Ix: IndexType> EdgeWeights<'a, E, Ix> {
    #[verifier::prophetic]
    pub open spec fn rest(&self) -> Seq<&'a E> { eweights_of(IteratorSpec::remaining(&self.edges)) }
}
impl<'a, E, Ix: IndexType> vstd::std_specs::iter::IteratorSpecImpl for EdgeWeights<'a, E, Ix> {
    open spec fn obeys_prophetic_iter_laws(&self) -> bool { true }
    #[verifier::prophetic]
    open spec fn remaining(&self) -> Seq<&'a E> { self.rest() }
    open spec fn decrease(&self) -> Option<nat> { IteratorSpec::decrease(&self.edges) }
    open spec fn will_return_none(&self) -> bool { true }
    open spec fn peek(&self, i: int) -> Option<&'a E> { None }
}

//@ item src/graph_impl/mod.rs | - | impl<'a, E, Ix> Iterator for EdgeWeights<'a, E, Ix> where Ix: IndexType
impl<'a, E, Ix> Iterator for EdgeWeights<'a, E, Ix>
where
    Ix: IndexType,
{
    type Item = &'a E;

    fn next(&mut self) -> Option<&'a E> {
        /*+*/let ghost items = IteratorSpec::remaining(&self.edges);
        let r = {/*-*/ self.edges.next().map(|edge/*+*/: &'a Edge<E, Ix>/*-*/| /*+*/-> (w: &'a E) ensures *w == edge.weight {/*-*/ &edge.weight /*+*/}/*-*/) /*+*/};
        proof {
            if r is Some { assert(items.len() > 0 && *r.unwrap() == items[0].weight); assert(IteratorSpec::remaining(&self.edges) == items.drop_first()); assert(old(self).rest() =~= seq![r.unwrap()] + self.rest()); }
            else { assert(self.rest() =~= Seq::<&'a E>::empty()); } }
        r/*-*/
    }

    /*+*/#[verifier::external_body]/*-*/
    fn size_hint(&self) -> (usize, Option<usize>) {
        self.edges.size_hint()
    }
}
//@ end

impl<N, E, Ty, Ix> Graph<N, E, Ty, Ix>
where
    Ty: EdgeType,
    Ix: IndexType,
{
//@ item src/graph_impl/mod.rs | impl<N, E, Ty, Ix> Graph<N, E, Ty, Ix> where Ty: EdgeType, Ix: IndexType | fn node_weights
    /// Return an iterator yielding immutable access to all node weights.
    ///
    /// The order in which weights are yielded matches the order of their
    /// node indices.
    pub fn node_weights(&self) -> (r: NodeWeights<N, Ix>)
        /*+*/ensures r.obeys_prophetic_iter_laws(), r.decrease() is Some, r.remaining().len() == self.nodes@.len(),
            forall|k: int| 0 <= k < self.nodes@.len() ==> *(#[trigger] r.remaining()[k]) == self.nodes@[k].weight/*-*/   // [node_weights_in_index_order]
    {
        NodeWeights {
            nodes: self.nodes.iter(),
        }
    }
//@ end

//@ item src/graph_impl/mod.rs | impl<N, E, Ty, Ix> Graph<N, E, Ty, Ix> where Ty: EdgeType, Ix: IndexType | fn edge_weights
    /// Return an iterator yielding immutable access to all edge weights.
    ///
    /// The order in which weights are yielded matches the order of their
    /// edge indices.
    pub fn edge_weights(&self) -> (r: EdgeWeights<E, Ix>)
        /*+*/ensures r.obeys_prophetic_iter_laws(), r.decrease() is Some, r.remaining().len() == self.edges@.len(),
            forall|k: int| 0 <= k < self.edges@.len() ==> *(#[trigger] r.remaining()[k]) == self.edges@[k].weight/*-*/   // [edge_weights_in_index_order]
    {
        EdgeWeights {
            edges: self.edges.iter(),
        }
    }
//@ end
}
