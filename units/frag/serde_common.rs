// ======================================================================================
// fragment serde_common.rs - what Graph's and StableGraph's serde support share (C17): the crate's own
// IntoSerializable / FromDeserialized traits, EdgeProperty, the error-message builders.
// serde itself (derive output, visitors, formats) is outside.  `Error` is a stand-in for `serde::de::Error`
// (only `custom` is ever used, through the message builders, which only format text and are TRUSTED stubs, D8/D20).
// ======================================================================================

/// stand-in for `serde::de::Error`
pub trait Error: Sized { }

//@ item src/serde_utils.rs | - | trait IntoSerializable
/// Map to serializeable representation
pub trait IntoSerializable/*+*/: Sized/*-*/ {
    type Output;
    /*+*/
    /// what the type needs of `self` (the representation invariant, where it has one)
    spec fn ser_ok(self) -> bool;
    /*-*/
    fn into_serializable(self) -> Self::Output
        /*+*/requires self.ser_ok()/*-*/;
}
//@ end

//@ item src/serde_utils.rs | - | trait FromDeserialized
/// Map from deserialized representation
pub trait FromDeserialized: Sized {
    type Input;
    /*+*/
    /// what the serde-derived deserialiser guarantees of the value it hands over (for the graph types: node slots are built with both list heads at `end`)
    spec fn input_ok(input: Self::Input) -> bool;
    /*-*/
    fn from_deserialized<E>(input: Self::Input) -> Result<Self, E>
    where
        E: Error/*+*/,
        requires Self::input_ok(input)/*-*/;
}
//@ end

//@ item src/graph_impl/serialization.rs | - | enum EdgeProperty
pub enum EdgeProperty {
    Undirected,
    Directed,
}
//@ end

//@ item src/graph_impl/serialization.rs | - | impl EdgeProperty
impl EdgeProperty {
    pub fn is_directed(&self) -> (r: bool)
        /*+*/ensures r == (*self is Directed)/*-*/
    {
        match *self {
            EdgeProperty::Directed => true,
            EdgeProperty::Undirected => false,
        }
    }
}
//@ end

impl<Ty: EdgeType> vstd::std_specs::convert::FromSpecImpl<PhantomData<Ty>> for EdgeProperty {
    open spec fn obeys_from_spec() -> bool { true }
    open spec fn from_spec(v: PhantomData<Ty>) -> Self { if Ty::spec_is_directed() { EdgeProperty::Directed } else { EdgeProperty::Undirected } }
}
//@ item src/graph_impl/serialization.rs | - | impl<Ty> From<PhantomData<Ty>> for EdgeProperty where Ty: EdgeType
impl<Ty> From<PhantomData<Ty>> for EdgeProperty
where
    Ty: EdgeType,
{
    fn from(/*R:D10 _ */ _p /*-*/: PhantomData<Ty>) -> /*+*/(r:/*-*/ Self/*+*/)
        ensures (r is Directed) == Ty::spec_is_directed()/*-*/   // [edge_property_is_the_edge_type]
    {
        if Ty::is_directed() {
            EdgeProperty::Directed
        } else {
            EdgeProperty::Undirected
        }
    }
}
//@ end

/// D21: `Err(E2::custom(format_args!("graph edge property mismatch, expected {:?}, found {:?}", ..)))` builds a message only
#[verifier::external_body]
pub fn edge_property_mismatch<T, E2: Error>(found: EdgeProperty) -> (r: Result<T, E2>)
    ensures r is Err
{ unimplemented!() }

//@ item src/graph_impl/serialization.rs | - | impl<Ty> FromDeserialized for PhantomData<Ty> where Ty: EdgeType
impl<Ty> FromDeserialized for PhantomData<Ty>
where
    Ty: EdgeType,
{
    type Input = EdgeProperty;
    /*+*/open spec fn input_ok(input: EdgeProperty) -> bool { true }/*-*/
    fn from_deserialized<E2>(input: Self::Input) -> /*+*/(r:/*-*/ Result<Self, E2>/*+*/)/*-*/
    where
        E2: Error,
        /*+*/ensures r is Ok <==> (input is Directed) == Ty::spec_is_directed()/*-*/   // [edge_property_must_match_the_edge_type]
    {
        if input.is_directed() != Ty::is_directed() {
            /*R:D21 Err(E2::custom(format_args!(
                "graph edge property mismatch, \
                 expected {:?}, found {:?}",
                EdgeProperty::from(PhantomData::<Ty>),
                input
            ))) */ edge_property_mismatch(input) /*-*/
        } else {
            Ok(PhantomData)
        }
    }
}
//@ end

//@ item src/graph_impl/serialization.rs | - | fn invalid_node_err
/*+*/#[verifier::external_body]/*-*/
pub fn invalid_node_err<E>(node_index: usize, len: usize) -> E
where
    E: Error,
{
    /*R:D20 E::custom(format_args!(
        "invalid value: node index `{}` does not exist in graph \
         with node bound {}",
        node_index, len
    )) */ unimplemented!() /*-*/
}
//@ end

//@ item src/graph_impl/serialization.rs | - | fn invalid_hole_err
/*+*/#[verifier::external_body]/*-*/
pub fn invalid_hole_err<E>(node_index: usize) -> E
where
    E: Error,
{
    /*R:D20 E::custom(format_args!(
        "invalid value: node hole `{}` is not allowed.",
        node_index
    )) */ unimplemented!() /*-*/
}
//@ end

//@ item src/graph_impl/serialization.rs | - | fn invalid_length_err
/*+*/#[verifier::external_body]/*-*/
pub fn invalid_length_err<Ix, E>(node_or_edge: &str, len: usize) -> E
where
    E: Error,
    Ix: IndexType,
{
    /*R:D20 E::custom(format_args!(
        "invalid size: graph {} count {} exceeds index type maximum {}",
        node_or_edge,
        len,
        <Ix as IndexType>::max().index()
    )) */ unimplemented!() /*-*/
}
//@ end

/// the node slots as the node deserialiser builds them: both list heads at `end`
pub open spec fn fresh_nodes<N, Ix: IndexType>(ns: Seq<Node<N, Ix>>) -> bool {
    forall|a: int| 0 <= a < ns.len() ==> (#[trigger] ns[a]).next[0].i() == end_ix::<Ix>() && ns[a].next[1].i() == end_ix::<Ix>()
}
