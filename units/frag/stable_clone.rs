// ======================================================================================
// fragment stable_clone.rs - Clone / clone_from of StableGraph (C02): a clone has the same structure (indices, links,
// vacancies, free lists, counts) as its source; weights are whatever `N::clone` / `E::clone` return.
// (Node, Edge and Graph: fragment graph_clone.rs)
// ======================================================================================

//@ item src/graph_impl/stable_graph/mod.rs | - | impl<N, E, Ty, Ix: IndexType> Clone for StableGraph<N, E, Ty, Ix> where N: Clone, E: Clone
/// The resulting cloned graph has the same graph indices as `self`.
impl<N, E, Ty, Ix: IndexType> Clone for StableGraph<N, E, Ty, Ix>
where
    N: Clone,
    E: Clone,
{
    fn clone(&self) -> /*+*/(r:/*-*/ Self/*+*/)
        ensures r.same_shape(self),                  // [stable_clone_same_structure]
            self.wf() ==> r.wf()/*-*/                // [stable_clone_keeps_invariant]
    {
        /*+*/let r = {/*-*/ StableGraph {
            g: self.g.clone(),
            node_count: self.node_count,
            edge_count: self.edge_count,
            free_node: self.free_node,
            free_edge: self.free_edge,
        } /*+*/};
        proof { if self.wf() { r.lemma_reweighed(self); } }
        r/*-*/
    }

    fn clone_from(&mut self, rhs: &Self)
        /*+*/ensures final(self).same_shape(rhs),    // [stable_clone_from_same_structure]
            rhs.wf() ==> final(self).wf()/*-*/       // [stable_clone_from_keeps_invariant]
    {
        /*R:D28 self.g.clone_from(&rhs.g); */ self.g = rhs.g.clone(); /*-*/
        self.node_count = rhs.node_count;
        self.edge_count = rhs.edge_count;
        self.free_node = rhs.free_node;
        self.free_edge = rhs.free_edge;
        /*+*/proof { if rhs.wf() { self.lemma_reweighed(rhs); } }/*-*/
    }
}
//@ end
