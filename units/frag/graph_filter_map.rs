// ======================================================================================
// fragment graph_filter_map.rs - Graph::filter_map under contract (C01), for every pair of `FnMut` mappers:
// the result is well formed; its nodes are, in index order, the original nodes the node mapper answered `Some` for
// (with the answered weights); its edges are, in index order, the original edges whose two endpoints were kept and
// the edge mapper answered `Some` for, between the NEW indices (ranks) of their endpoints.
// ======================================================================================

/// D29 (ASSUMED): the derived `Clone` of the `Copy` newtype NodeIndex is a copy (Verus gives the derive no specification;
/// std requires `Clone` of a `Copy` type to agree with the copy).  Needed for `vec![NodeIndex::end(); n]`.
#[verifier::external_body]
pub proof fn axiom_node_index_clone_is_copy<Ix: IndexType>()
    ensures forall|a: NodeIndex<Ix>, b: NodeIndex<Ix>| #[trigger] cloned(a, b) ==> a == b
{ }

/// some call of the node mapper for original index i with the original weight answered r
pub open spec fn nmap_answer<'a, N, N2, Ix: IndexType, F: FnMut(NodeIndex<Ix>, &'a N) -> Option<N2>>(f: F, i: int, w: &'a N, r: Option<N2>) -> bool {
    exists|ix: NodeIndex<Ix>| ix.i() == i && #[trigger] f.ensures((ix, w), r)
}
pub open spec fn emap_answer<'a, E, E2, Ix: IndexType, G: FnMut(EdgeIndex<Ix>, &'a E) -> Option<E2>>(g: G, i: int, w: &'a E, r: Option<E2>) -> bool {
    exists|ix: EdgeIndex<Ix>| ix.i() == i && #[trigger] g.ensures((ix, w), r)
}
pub open spec fn ascending(s: Seq<int>, lo: int, hi: int) -> bool {
    (forall|i: int, j: int| 0 <= i < j < s.len() ==> s[i] < s[j]) && (forall|i: int| 0 <= i < s.len() ==> lo <= #[trigger] s[i] < hi)
}
/// position of x in s (s duplicate-free), -1 if absent
pub open spec fn rank_in(s: Seq<int>, x: int) -> int { if s.contains(x) { s.index_of(x) } else { -1 } }

impl<N, E, Ty, Ix> Graph<N, E, Ty, Ix>
where
    Ty: EdgeType,
    Ix: IndexType,
{
//@ item src/graph_impl/mod.rs | impl<N, E, Ty, Ix> Graph<N, E, Ty, Ix> where Ty: EdgeType, Ix: IndexType | fn filter_map
    /// Create a new `Graph` by mapping nodes and edges.
    /// A node or edge may be mapped to `None` to exclude it from
    /// the resulting graph.
    pub fn filter_map<'a, F, G, N2, E2>(
        &'a self,
        mut node_map: F,
        mut edge_map: G,
    ) -> (r: Graph<N2, E2, Ty, Ix>)
    where
        F: FnMut(NodeIndex<Ix>, &'a N) -> Option<N2>,
        G: FnMut(EdgeIndex<Ix>, &'a E) -> Option<E2>,
        /*+*/requires self.wf(),
            forall|ix: NodeIndex<Ix>, w: &'a N| #[trigger] node_map.requires((ix, w)),
            forall|ix: EdgeIndex<Ix>, w: &'a E| #[trigger] edge_map.requires((ix, w)),
        ensures r.wf(),
            exists|kept: Seq<int>, ekept: Seq<int>| #![auto] {
                &&& ascending(kept, 0, self.n()) && r.n() == kept.len()                                                              // [filter_map_nodes_in_order]
                &&& forall|j: int| 0 <= j < kept.len() ==> nmap_answer(node_map, kept[j], &self.nodes@[kept[j]].weight, Some(r.view().nodes[j]))   // [filter_map_kept_nodes_have_the_mapped_weight]
                &&& forall|a: int| 0 <= a < self.n() && !kept.contains(a) ==> nmap_answer(node_map, a, &self.nodes@[a].weight, None::<N2>)           // [filter_map_dropped_nodes_were_mapped_to_none]
                &&& ascending(ekept, 0, self.m()) && r.m() == ekept.len()                                                            // [filter_map_edges_in_order]
                &&& forall|j: int| 0 <= j < ekept.len() ==> kept.contains(self.edges@[ekept[j]].node[0].i()) && kept.contains(self.edges@[ekept[j]].node[1].i())
                        && r.view().edges[j].0 == kept.index_of(self.edges@[ekept[j]].node[0].i()) && r.view().edges[j].1 == kept.index_of(self.edges@[ekept[j]].node[1].i())   // [filter_map_edges_between_new_indices]
                        && emap_answer(edge_map, ekept[j], &self.edges@[ekept[j]].weight, Some(r.view().edges[j].2))
                &&& forall|e: int| 0 <= e < self.m() && !ekept.contains(e) ==> !kept.contains(self.edges@[e].node[0].i()) || !kept.contains(self.edges@[e].node[1].i())
                        || emap_answer(edge_map, e, &self.edges@[e].weight, None::<E2>)                                               // [filter_map_dropped_edges_lost_an_endpoint_or_were_mapped_to_none]
            },
        /*-*/
    {
        /*+*/let ghost nm0 = node_map; let ghost em0 = edge_map; let ghost n = self.n(); let ghost m = self.m();
        let ghost mut kept: Seq<int> = Seq::empty(); let ghost mut ekept: Seq<int> = Seq::empty();/*-*/
        let mut g = Graph::with_capacity(0, 0);
        // mapping from old node index to new node index, end represents removed.
        let mut node_index_map = vec![NodeIndex::end(); self.node_count()];
        /*+*/proof { axiom_node_index_clone_is_copy::<Ix>(); assert forall|a: int| 0 <= a < n implies (#[trigger] node_index_map@[a]).i() == end_ix::<Ix>() by { } }/*-*/
        /*R:D6 for (i, node) in enumerate(&self.nodes) */ let mut __i = 0usize; loop
            invariant __i <= n, n == self.nodes@.len(), m == self.edges@.len(), self.wf(), g.wf(), g.m() == 0, node_index_map@.len() == n,
                forall|ix: NodeIndex<Ix>, w: &'a N| #[trigger] node_map.requires((ix, w)),
                forall|ix: NodeIndex<Ix>, w: &'a N, r: Option<N2>| #[trigger] node_map.ensures((ix, w), r) == nm0.ensures((ix, w), r),
                ascending(kept, 0, __i as int), g.n() == kept.len(),
                forall|j: int| 0 <= j < kept.len() ==> nmap_answer(nm0, #[trigger] kept[j], &self.nodes@[kept[j]].weight, Some(g.view().nodes[j])),
                forall|a: int| 0 <= a < __i && !kept.contains(a) ==> nmap_answer(nm0, a, &self.nodes@[a].weight, None::<N2>),
                forall|a: int| 0 <= a < __i ==> (if kept.contains(a) { (#[trigger] node_index_map@[a]).i() == kept.index_of(a) } else { node_index_map@[a].i() == end_ix::<Ix>() }),
                forall|a: int| __i <= a < n ==> (#[trigger] node_index_map@[a]).i() == end_ix::<Ix>(),
            ensures __i >= n,
            decreases n - __i/*-*/
        {
            /*+*/if __i >= self.nodes.len() { break; } let i = __i; let node = &self.nodes[i]; __i += 1;
            let ghost kept0 = kept; let ghost g0 = g;
            proof { Ix::new_law(i as usize); lemma_ascending_len(kept, 0, i as int); }/*-*/
            if let Some(nw) = node_map(NodeIndex::new(i), &node.weight) {
                node_index_map[i] = g.add_node(nw);
                /*+*/proof {
                    kept = kept0.push(i as int);
                    assert(g.view().nodes == g0.view().nodes.push(nw)); assert(g.m() == g.view().edges.len() && g0.m() == g0.view().edges.len()); assert(g.n() == g.view().nodes.len() && g0.n() == g0.view().nodes.len());
                    assert forall|a: int| 0 <= a < i + 1 implies (if kept.contains(a) { (#[trigger] node_index_map@[a]).i() == kept.index_of(a) } else { node_index_map@[a].i() == end_ix::<Ix>() }) by {
                        if a == i { assert(kept[kept0.len() as int] == i); kept.index_of_first_ensures(i as int); }
                        else if kept0.contains(a) { let j = choose|j: int| 0 <= j < kept0.len() && kept0[j] == a; assert(kept[j] == a); kept0.index_of_first_ensures(a); kept.index_of_first_ensures(a); }
                        else { assert(!kept.contains(a)) by { if kept.contains(a) { let j = choose|j: int| 0 <= j < kept.len() && kept[j] == a; if j < kept0.len() { assert(kept0[j] == a); } } } }
                    }
                    assert forall|j: int| 0 <= j < kept.len() implies nmap_answer(nm0, #[trigger] kept[j], &self.nodes@[kept[j]].weight, Some(g.view().nodes[j])) by {
                        if j < kept0.len() { assert(kept[j] == kept0[j]); assert(g.view().nodes[j] == g0.view().nodes[j]); }
                    }
                    assert forall|a: int| 0 <= a < i + 1 && !kept.contains(a) implies nmap_answer(nm0, a, &self.nodes@[a].weight, None::<N2>) by { assert(a != i) by { assert(kept[kept0.len() as int] == i); } assert(!kept0.contains(a)) by { if kept0.contains(a) { let j = choose|j: int| 0 <= j < kept0.len() && kept0[j] == a; assert(kept[j] == a); } } }
                }/*-*/
            } /*+*/else { proof {
                assert(!kept.contains(i as int)) by { if kept.contains(i as int) { let j = choose|j: int| 0 <= j < kept.len() && kept[j] == i; } }
            } }/*-*/
        }
        /*+*/let ghost nodes1 = g.view().nodes;/*-*/
        /*R:D6 for (i, edge) in enumerate(&self.edges) */ let mut __i = 0usize; loop
            invariant __i <= m, n == self.nodes@.len(), m == self.edges@.len(), self.wf(), g.wf(), g.n() == kept.len(), g.view().nodes == nodes1, node_index_map@.len() == n,
                forall|ix: EdgeIndex<Ix>, w: &'a E| #[trigger] edge_map.requires((ix, w)),
                forall|ix: EdgeIndex<Ix>, w: &'a E, r: Option<E2>| #[trigger] edge_map.ensures((ix, w), r) == em0.ensures((ix, w), r),
                ascending(kept, 0, n),
                forall|a: int| 0 <= a < n ==> (if kept.contains(a) { (#[trigger] node_index_map@[a]).i() == kept.index_of(a) } else { node_index_map@[a].i() == end_ix::<Ix>() }),
                ascending(ekept, 0, __i as int), g.m() == ekept.len(),
                forall|j: int| 0 <= j < ekept.len() ==> kept.contains(self.edges@[#[trigger] ekept[j]].node[0].i()) && kept.contains(self.edges@[ekept[j]].node[1].i())
                        && g.view().edges[j].0 == kept.index_of(self.edges@[ekept[j]].node[0].i()) && g.view().edges[j].1 == kept.index_of(self.edges@[ekept[j]].node[1].i())
                        && emap_answer(em0, ekept[j], &self.edges@[ekept[j]].weight, Some(g.view().edges[j].2)),
                forall|e: int| 0 <= e < __i && !ekept.contains(e) ==> !kept.contains(self.edges@[e].node[0].i()) || !kept.contains(self.edges@[e].node[1].i())
                        || emap_answer(em0, e, &self.edges@[e].weight, None::<E2>),
            ensures __i >= m,
            decreases m - __i/*-*/
        {
            /*+*/if __i >= self.edges.len() { break; } let i = __i; let edge = &self.edges[i]; __i += 1;
            let ghost ekept0 = ekept; let ghost g0 = g;
            proof { Ix::new_law(i as usize); Ix::eq_law(); assert(edge.node[0].i() < n && edge.node[1].i() < n);
                kept.index_of_first_ensures(edge.node[0].i()); kept.index_of_first_ensures(edge.node[1].i()); lemma_ascending_len(kept, 0, n); lemma_ascending_len(ekept, 0, i as int); }/*-*/
            // skip edge if any endpoint was removed
            let source = node_index_map[edge.source().index()];
            let target = node_index_map[edge.target().index()];
            if source != NodeIndex::end() && target != NodeIndex::end() {
                if let Some(ew) = edge_map(EdgeIndex::new(i), &edge.weight) {
                    g.add_edge(source, target, ew);
                    /*+*/proof {
                        ekept = ekept0.push(i as int);
                        assert(g.view().edges == g0.view().edges.push((source.i(), target.i(), ew))); assert(g.m() == g.view().edges.len() && g0.m() == g0.view().edges.len()); assert(g.n() == g.view().nodes.len() && g0.n() == g0.view().nodes.len());
                        assert forall|j: int| 0 <= j < ekept.len() implies kept.contains(self.edges@[#[trigger] ekept[j]].node[0].i()) && kept.contains(self.edges@[ekept[j]].node[1].i())
                                && g.view().edges[j].0 == kept.index_of(self.edges@[ekept[j]].node[0].i()) && g.view().edges[j].1 == kept.index_of(self.edges@[ekept[j]].node[1].i())
                                && emap_answer(em0, ekept[j], &self.edges@[ekept[j]].weight, Some(g.view().edges[j].2)) by {
                            if j < ekept0.len() { assert(ekept[j] == ekept0[j]); assert(g.view().edges[j] == g0.view().edges[j]); }
                        }
                        assert forall|e: int| 0 <= e < i + 1 && !ekept.contains(e) implies !kept.contains(self.edges@[e].node[0].i()) || !kept.contains(self.edges@[e].node[1].i())
                                || emap_answer(em0, e, &self.edges@[e].weight, None::<E2>) by {
                            assert(e != i) by { assert(ekept[ekept0.len() as int] == i); }
                            assert(!ekept0.contains(e)) by { if ekept0.contains(e) { let j = choose|j: int| 0 <= j < ekept0.len() && ekept0[j] == e; assert(ekept[j] == e); } }
                        }
                    }/*-*/
                } /*+*/else { proof { assert(!ekept.contains(i as int)) by { if ekept.contains(i as int) { let j = choose|j: int| 0 <= j < ekept.len() && ekept[j] == i; } } } }/*-*/
            } /*+*/else { proof { assert(!ekept.contains(i as int)) by { if ekept.contains(i as int) { let j = choose|j: int| 0 <= j < ekept.len() && ekept[j] == i; } } } }/*-*/
        }
        g
    }
//@ end
}

/// an ascending sequence within [lo, hi) has at most hi - lo elements
pub proof fn lemma_ascending_at(s: Seq<int>, lo: int, hi: int, k: int)
    requires ascending(s, lo, hi), 0 <= k < s.len()
    ensures lo + k <= s[k]
    decreases k
{
    if k > 0 { lemma_ascending_at(s, lo, hi, k - 1); assert(s[k - 1] < s[k]); }
}
pub proof fn lemma_ascending_len(s: Seq<int>, lo: int, hi: int)
    requires ascending(s, lo, hi), lo <= hi
    ensures s.len() <= hi - lo
{
    if s.len() > 0 { lemma_ascending_at(s, lo, hi, s.len() - 1); }
}
