// ======================================================================================
// fragment visit_noderefs.rs - src/visit/mod.rs: NodeRef and IntoNodeReferences under contract (C06):
// node_references lists the nodes that node_identifiers lists, in the same order
//   D35: the `Copy` supertrait of NodeRef is dropped from the verified text: this Verus's lifetime encoding does not see that the
//   tuple `(Id, &W)` is Copy ("the trait bound (Box<Id>, Box<..>): Copy is not satisfied"); no contract or proof uses the bound.
// ======================================================================================

//@ item src/visit/mod.rs | - | trait NodeRef
/// A node reference.
pub trait NodeRef/*R:D35 : Copy */ /*-*/ {
    type NodeId;
    type Weight;
    /*+*/
    /// the node this reference stands for / the weight it shows
    spec fn nid(&self) -> Self::NodeId;
    spec fn nw(&self) -> &Self::Weight;
    /*-*/
    fn id(&self) -> (r: Self::NodeId)
        /*+*/ensures r == self.nid()/*-*/;
    fn weight(&self) -> (r: &Self::Weight)
        /*+*/ensures r == self.nw()/*-*/;
}
//@ end

//@ item src/visit/mod.rs | - | trait IntoNodeReferences
/// Access to the sequence of the graph’s nodes
pub trait IntoNodeReferences : Data + IntoNodeIdentifiers {
    type NodeRef: NodeRef<NodeId=Self::NodeId, Weight=Self::NodeWeight>;
    type NodeReferences: Iterator<Item=Self::NodeRef>;
    fn node_references(self) -> (r: Self::NodeReferences)
        /*+*/ensures r.obeys_prophetic_iter_laws(), r.decrease() is Some,
            r.remaining().len() == self.node_ids().len(),
            forall|k: int| 0 <= k < self.node_ids().len() ==> (#[trigger] r.remaining()[k]).nid() == self.node_ids()[k]/*-*/;   // [node_references_match_node_identifiers]
}
//@ end

//@ item src/visit/mod.rs | - | impl<Id, W> NodeRef for (Id, &W) where Id: Copy
impl<Id, W> NodeRef for (Id, &W)
where
    Id: Copy,
{
    type NodeId = Id;
    type Weight = W;
    /*+*/
    open spec fn nid(&self) -> Id { self.0 }
    open spec fn nw(&self) -> &W { self.1 }
    /*-*/
    fn id(&self) -> Self::NodeId {
        self.0
    }
    fn weight(&self) -> &Self::Weight {
        self.1
    }
}
//@ end
