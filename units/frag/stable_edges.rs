// ======================================================================================
// fragment stable_edges.rs - the Edges iterator of StableGraph and edges / edges_directed (properties C02 / C06), adapted from visit_graph_edges.rs:
// the edge references of the matching incidence lists of a, oriented as documented
// (Directed: the list of the direction; Undirected: both lists, a always at the `dir` end, self-loops once)
// ======================================================================================

//@ item src/graph_impl/mod.rs | - | fn swap_pair
fn swap_pair<T>(mut x: [T; 2]) -> (r: [T; 2])
    /*+*/ensures r[0] == x[1], r[1] == x[0], r == [x[1], x[0]]/*-*/
{
    /*+*/let ghost x0 = x;/*-*/
    x.swap(0, 1);
    /*+*/proof { assert(x =~= [x0[1], x0[0]]); }/*-*/
    x
}
//@ end

/// the reference the iterator yields for edge e (endpoints swapped when `swap`)
pub open spec fn er_of<'a, E, Ix: IndexType>(edges: Seq<Edge<Option<E>, Ix>>, e: int, swap: bool) -> EdgeReference<'a, E, Ix> {
    EdgeReference {
        index: EdgeIndex(Ix::spec_new(e as usize)),
        node: if swap { [edges[e].node[1], edges[e].node[0]] } else { edges[e].node },
        weight: &edges[e].weight->Some_0,
    }
}
pub open spec fn ed_out<'a, E, Ix: IndexType>(edges: Seq<Edge<Option<E>, Ix>>, s: Seq<int>, swap: bool) -> Seq<EdgeReference<'a, E, Ix>> {
    Seq::new(s.len(), |i: int| er_of(edges, s[i], swap))
}
/// the incoming list; with `skip` >= 0 the edges whose source is `skip` (self-loops, already seen) are left out
pub open spec fn ed_in<'a, E, Ix: IndexType>(edges: Seq<Edge<Option<E>, Ix>>, s: Seq<int>, skip: int, swap: bool) -> Seq<EdgeReference<'a, E, Ix>>
    decreases s.len()
{
    if s.len() == 0 { Seq::empty() }
    else { (if skip >= 0 && edges[s[0]].node[0].0.ix() == skip { Seq::empty() } else { seq![er_of(edges, s[0], swap)] }) + ed_in(edges, s.drop_first(), skip, swap) }
}

//@ item src/graph_impl/stable_graph/mod.rs | - | struct Edges
/// Iterator over the edges of from or to a node
pub struct Edges<'a, E: 'a, Ty, Ix: 'a = DefaultIx>
where
    Ty: EdgeType,
    Ix: IndexType,
{
    /// starting node to skip over
    skip_start: NodeIndex<Ix>,
    edges: &'a [Edge<Option<E>, Ix>],

    /// Next edge to visit.
    next: [EdgeIndex<Ix>; 2],

    /// For directed graphs: the direction to iterate in
    /// For undirected graphs: the direction of edges
    direction: Direction,
    ty: PhantomData<Ty>,
}
//@ end

impl<'a, E, Ty: EdgeType, Ix: IndexType> Edges<'a, E, Ty, Ix> {
    pub closed spec fn ev(&self) -> Seq<Edge<Option<E>, Ix>> { self.edges@ }
    pub closed spec fn rest0(&self) -> Seq<int> { chain_of(self.edges@, self.next[0], 0) }
    pub closed spec fn rest1(&self) -> Seq<int> { chain_of(self.edges@, self.next[1], 1) }
    pub closed spec fn rem(&self) -> Seq<EdgeReference<'a, E, Ix>> {
        let directed = Ty::spec_is_directed(); let k = self.direction.k();
        (if !directed || k == 0 { ed_out(self.edges@, self.rest0(), !directed && k == 1) } else { Seq::empty() })
        + (if !directed || k == 1 { ed_in(self.edges@, self.rest1(), if directed { -1 } else { self.skip_start.0.ix() as int }, !directed && k == 0) } else { Seq::empty() })
    }
    /// TYPE INVARIANT: both pointers head chains of live edge slots (established by StableGraph::edges_directed from wf())
    #[verifier::type_invariant]
    closed spec fn tinv(self) -> bool { nb_inv(self.edges@, self.next[0], self.next[1]) }
}
impl<'a, E, Ty: EdgeType, Ix: IndexType> vstd::std_specs::iter::IteratorSpecImpl for Edges<'a, E, Ty, Ix> {
    closed spec fn obeys_prophetic_iter_laws(&self) -> bool { true }
    closed spec fn remaining(&self) -> Seq<EdgeReference<'a, E, Ix>> { self.rem() }
    closed spec fn decrease(&self) -> Option<nat> { Some((self.rest0().len() + self.rest1().len()) as nat) }
    closed spec fn will_return_none(&self) -> bool { true }
    closed spec fn peek(&self, i: int) -> Option<EdgeReference<'a, E, Ix>> { None }
}

//@ item src/graph_impl/stable_graph/mod.rs | - | impl<'a, E, Ty, Ix> Iterator for Edges<'a, E, Ty, Ix> where Ty: EdgeType, Ix: IndexType
impl<'a, E, Ty, Ix> Iterator for Edges<'a, E, Ty, Ix>
where
    Ty: EdgeType,
    Ix: IndexType,
{
    type Item = EdgeReference<'a, E, Ix>;

    fn next(&mut self) -> Option<Self::Item> {
        //      type        direction    |    iterate over    reverse
        //                               |
        //    Directed      Outgoing     |      outgoing        no
        //    Directed      Incoming     |      incoming        no
        //   Undirected     Outgoing     |        both       incoming
        //   Undirected     Incoming     |        both       outgoing

        // For iterate_over, "both" is represented as None.
        // For reverse, "no" is represented as None.
        /*+*/proof { use_type_invariant(&*self); lemma_chain_step(self.edges@, self.next[0], 0); lemma_chain_step(self.edges@, self.next[1], 1); }
        let ghost directed = Ty::spec_is_directed(); let ghost k = self.direction.k();
        let ghost sw0 = !directed && k == 1; let ghost sw1 = !directed && k == 0; let ghost skip = if directed { -1 } else { self.skip_start.0.ix() as int };/*-*/
        let (iterate_over, reverse) = if Ty::is_directed() {
            (Some(self.direction), None)
        } else {
            (None, Some(self.direction.opposite()))
        };

        if iterate_over.unwrap_or(Outgoing) == Outgoing {
            let i = self.next[0].index();
            /*+*/proof { if (i as int) < self.edges@.len() {
                let r0 = self.rest0(); assert(r0[0] == i); assert(elive(self.edges@, r0[0]));
                let t0 = chain_of(self.edges@, self.edges@[i as int].next[0], 0);
                assert(r0 == seq![i as int] + t0);
                assert(all_live(self.edges@, t0)) by { assert forall|q: int| 0 <= q < t0.len() implies elive(self.edges@, #[trigger] t0[q]) by { assert(r0[q + 1] == t0[q]); } } } }/*-*/
            if let Some(Edge {
                node,
                weight: Some(weight),
                next,
            }) = self.edges.get(i)
            {
                self.next[0] = next[0];
                /*+*/proof {
                    let r0 = old(self).rest0();
                    assert(r0 == seq![i as int] + self.rest0());
                    assert(ed_out(self.edges@, r0, sw0) =~= seq![er_of(self.edges@, i as int, sw0)] + ed_out(self.edges@, self.rest0(), sw0));
                    assert(old(self).rem() =~= seq![er_of(self.edges@, i as int, sw0)] + self.rem());
                    assert((seq![er_of(self.edges@, i as int, sw0)] + self.rem()).drop_first() =~= self.rem());
                }/*-*/
                return Some(EdgeReference {
                    index: edge_index(i),
                    node: if reverse == Some(Outgoing) {
                        swap_pair(*node)
                    } else {
                        *node
                    },
                    weight,
                });
            }
        }

        /*+*/proof { if !directed || k == 0 { assert(ed_out(self.edges@, self.rest0(), sw0) =~= Seq::<EdgeReference<'a, E, Ix>>::empty()); } }/*-*/
        if iterate_over.unwrap_or(Incoming) == Incoming {
            while let Some(Edge { node, weight, next }) = self.edges.get(self.next[1].index())
                /*+*/invariant self.edges == old(self).edges, self.skip_start == old(self).skip_start, self.next[0] == old(self).next[0], self.direction == old(self).direction,
                    self.tinv(), directed == Ty::spec_is_directed(), k == self.direction.k(), !directed || k == 1,
                    sw1 == (!directed && k == 0), skip == (if directed { -1 } else { self.skip_start.0.ix() as int }),
                    iterate_over is None <==> !directed, reverse == (if directed { None::<Direction> } else { Some(self.direction.opp()) }),
                    self.rem() == old(self).rem(), self.rest1().len() <= old(self).rest1().len(), self.rest0() == old(self).rest0(),
                    !directed || k == 0 ==> self.rest0().len() == 0,
                ensures self.next[1].0.ix() >= self.edges@.len(),
                decreases self.rest1().len()/*-*/
            {
                /*+*/let ghost before = *self; let ghost e1 = self.next[1].0.ix() as int;
                proof { lemma_chain_step(self.edges@, self.next[1], 1); Ix::eq_law();
                    let r1 = self.rest1(); assert(r1[0] == e1); assert(elive(self.edges@, r1[0]));
                    let t1 = chain_of(self.edges@, self.edges@[e1].next[1], 1);
                    assert(r1 == seq![e1] + t1);
                    assert(all_live(self.edges@, t1)) by { assert forall|q: int| 0 <= q < t1.len() implies elive(self.edges@, #[trigger] t1[q]) by { assert(r1[q + 1] == t1[q]); } } }/*-*/
                debug_assert!(weight.is_some());
                let edge_index = self.next[1];
                self.next[1] = next[1];
                /*+*/proof {
                    lemma_chain_step(self.edges@, self.next[0], 0);
                    let r1 = before.rest1();
                    assert(r1 == seq![e1] + self.rest1());
                    assert(r1.drop_first() =~= self.rest1());
                    assert(self.rest0() == before.rest0());
                }/*-*/
                // In any of the "both" situations, self-loops would be iterated over twice.
                // Skip them here.
                if iterate_over.is_none() && node[0] == self.skip_start {
                    /*+*/proof { assert(before.rem() =~= self.rem()); }/*-*/
                    continue;
                }
                /*+*/proof {
                    assert(ed_in(self.edges@, r1_of(before.edges@, before.next[1]), skip, sw1) =~= seq![er_of(self.edges@, e1, sw1)] + ed_in(self.edges@, self.rest1(), skip, sw1)) by {
                        assert(r1_of(before.edges@, before.next[1]) == before.rest1());
                    }
                    assert(before.rem() =~= seq![er_of(self.edges@, e1, sw1)] + self.rem());
                    assert((seq![er_of(self.edges@, e1, sw1)] + self.rem()).drop_first() =~= self.rem());
                    Ix::ix_bound(edge_index.0); Ix::new_law(e1 as usize); Ix::ix_inj(edge_index.0, Ix::spec_new(e1 as usize));
                }/*-*/

                return Some(EdgeReference {
                    index: edge_index,
                    node: if reverse == Some(Incoming) {
                        swap_pair(*node)
                    } else {
                        *node
                    },
                    weight: weight.as_ref().unwrap(),
                });
            }
        }

        /*+*/proof {
            lemma_chain_step(self.edges@, self.next[1], 1); lemma_chain_step(self.edges@, self.next[0], 0);
            assert(self.rem() =~= Seq::<EdgeReference<'a, E, Ix>>::empty());
        }/*-*/
        None
    }
}
//@ end
pub open spec fn r1_of<E, Ix: IndexType>(es: Seq<Edge<E, Ix>>, h: EdgeIndex<Ix>) -> Seq<int> { chain_of(es, h, 1) }

impl<N, E, Ty, Ix> StableGraph<N, E, Ty, Ix>
where
    Ty: EdgeType,
    Ix: IndexType,
{
    /// what `edges_directed(a, dir)` yields, in iteration order (nothing for a vacant or out-of-range a):
    /// Directed: the list of the direction as stored.  Undirected: the outgoing list, then the incoming list without
    /// self-loops, every edge oriented so that a is its source (dir = Outgoing) resp. its target (dir = Incoming).
    pub open spec fn edges_seq<'a>(&self, a: int, k: int) -> Seq<EdgeReference<'a, E, Ix>> {
        let es = self.es();
        if !nlive(self.ns(), a) { Seq::empty() }
        else if Ty::spec_is_directed() { if k == 0 { ed_out(es, self.outs(-1)[a], false) } else { ed_in(es, self.inns(-1)[a], -1, false) } }
        else { ed_out(es, self.outs(-1)[a], k == 1) + ed_in(es, self.inns(-1)[a], a, k == 0) }
    }

//@ item src/graph_impl/stable_graph/mod.rs | impl<N, E, Ty, Ix> StableGraph<N, E, Ty, Ix> where Ty: EdgeType, Ix: IndexType | fn edges
    pub fn edges(&self, a: NodeIndex<Ix>) -> (r: Edges<E, Ty, Ix>)
        /*+*/requires self.wf()
        ensures r.obeys_prophetic_iter_laws(), r.decrease() is Some, r.remaining() == self.edges_seq(a.i(), 0)/*-*/   // [stable_edges_is_outgoing_view]
    {
        self.edges_directed(a, Outgoing)
    }
//@ end

//@ item src/graph_impl/stable_graph/mod.rs | impl<N, E, Ty, Ix> StableGraph<N, E, Ty, Ix> where Ty: EdgeType, Ix: IndexType | fn edges_directed
    pub fn edges_directed(&self, a: NodeIndex<Ix>, dir: Direction) -> (r: Edges<E, Ty, Ix>)
        /*+*/requires self.wf()
        ensures r.obeys_prophetic_iter_laws(), r.decrease() is Some, r.remaining() == self.edges_seq(a.i(), dir.k())/*-*/   // [stable_edges_directed_is_matching_view]
    {
        /*+*/proof {
            let es = self.es(); let ai = a.i();
            if nlive(self.ns(), ai) {
                let o = self.outs(-1)[ai]; let i_ = self.inns(-1)[ai];
                lemma_slist_is_chain(es, self.ns()[ai].next[0], 0, o); lemma_chain_of(es, self.ns()[ai].next[0], 0, o);
                lemma_slist_is_chain(es, self.ns()[ai].next[1], 1, i_); lemma_chain_of(es, self.ns()[ai].next[1], 1, i_);
                assert(all_live(es, o)) by { assert forall|j: int| 0 <= j < o.len() implies elive(es, #[trigger] o[j]) by { assert(elive(es, self.outs(-1)[ai][j])); } }
                assert(all_live(es, i_)) by { assert forall|j: int| 0 <= j < i_.len() implies elive(es, #[trigger] i_[j]) by { assert(elive(es, self.inns(-1)[ai][j])); } }
                assert(nb_inv(es, self.ns()[ai].next[0], self.ns()[ai].next[1]));
            }
            assert forall|h0: EdgeIndex<Ix>, h1: EdgeIndex<Ix>| h0.0.ix() == end_ix::<Ix>() && h1.0.ix() == end_ix::<Ix>() implies #[trigger] nb_inv(es, h0, h1) by { lemma_chain_step(es, h0, 0); lemma_chain_step(es, h1, 1); }
        }
        let r = {/*-*/ Edges {
            skip_start: a,
            edges: &self.g.edges,
            direction: dir,
            next: match self.get_node(a) {
                None => [EdgeIndex::end(), EdgeIndex::end()],
                Some(n) => n.next,
            },
            ty: PhantomData,
        } /*+*/};
        proof {
            let es = self.es(); let ai = a.i(); let k = dir.k(); let directed = Ty::spec_is_directed();
            if nlive(self.ns(), ai) {
                let o = self.outs(-1)[ai]; let i_ = self.inns(-1)[ai];
                assert(r.rest0() == o && r.rest1() == i_);
                assert(r.rem() =~= self.edges_seq(ai, k));
            } else {
                lemma_chain_step(es, r.next[0], 0); lemma_chain_step(es, r.next[1], 1);
                assert(ed_out(es, r.rest0(), !directed && k == 1) =~= Seq::<EdgeReference<'_, E, Ix>>::empty());
                assert(r.rem() =~= Seq::<EdgeReference<'_, E, Ix>>::empty());
            }
        }
        r/*-*/
    }
//@ end
}
