// ======================================================================================
// fragment graph_walk.rs - the detached walker of Graph (C01, also the engine of StableGraph's walker): WalkNeighbors::next /
// next_node / next_edge (Neighbors::detach of Graph is in graph_walk_detach.rs).  A walker holds no borrow of the graph; stepping it through a graph g yields the same sequence as the
// Neighbors iterator it was detached from would, each neighbour together with the edge that leads to it.
// ======================================================================================

/// (edge, target) for the edges s
pub open spec fn wk_out<E, Ix: IndexType>(es: Seq<Edge<E, Ix>>, s: Seq<int>) -> Seq<(int, NodeIndex<Ix>)> { Seq::new(s.len(), |i: int| (s[i], es[s[i]].node[1])) }
/// (edge, source) for the edges s whose source is not `skip`
pub open spec fn wk_in<E, Ix: IndexType>(es: Seq<Edge<E, Ix>>, s: Seq<int>, skip: int) -> Seq<(int, NodeIndex<Ix>)>
    decreases s.len()
{
    if s.len() == 0 { Seq::empty() }
    else { (if es[s[0]].node[0].0.ix() != skip { seq![(s[0], es[s[0]].node[0])] } else { Seq::empty() }) + wk_in(es, s.drop_first(), skip) }
}
/// the walker visits the neighbours the iterator visits
pub proof fn lemma_wk_in_nodes<E, Ix: IndexType>(es: Seq<Edge<E, Ix>>, s: Seq<int>, skip: int)
    ensures wk_in(es, s, skip).len() == nb_in(es, s, skip).len(),
        forall|i: int| 0 <= i < nb_in(es, s, skip).len() ==> (#[trigger] wk_in(es, s, skip)[i]).1 == nb_in(es, s, skip)[i]
    decreases s.len()
{
    if s.len() > 0 { lemma_wk_in_nodes(es, s.drop_first(), skip); }
}

//@ item src/graph_impl/mod.rs | - | struct WalkNeighbors
/// A “walker” object that can be used to step through the edge list of a node.
pub struct WalkNeighbors<Ix> {
    pub skip_start: NodeIndex<Ix>,
    pub next: [EdgeIndex<Ix>; 2],
}
//@ end

impl<Ix: IndexType> WalkNeighbors<Ix> {
    pub open spec fn rest0<E>(&self, es: Seq<Edge<E, Ix>>) -> Seq<int> { chain_of(es, self.next[0], 0) }
    pub open spec fn rest1<E>(&self, es: Seq<Edge<E, Ix>>) -> Seq<int> { chain_of(es, self.next[1], 1) }
    /// both pointers head chains in the edge array (always true for a walker detached from Graph::neighbors* and stepped through the same, structurally unchanged graph)
    pub open spec fn ok<E>(&self, es: Seq<Edge<E, Ix>>) -> bool { has_chain(es, self.next[0], 0) && has_chain(es, self.next[1], 1) }
    /// what is still to come: (edge index, neighbour)
    pub open spec fn rem<E>(&self, es: Seq<Edge<E, Ix>>) -> Seq<(int, NodeIndex<Ix>)> { wk_out(es, self.rest0(es)) + wk_in(es, self.rest1(es), self.skip_start.0.ix() as int) }
}

impl<Ix: IndexType> WalkNeighbors<Ix> {
//@ item src/graph_impl/mod.rs | impl<Ix: IndexType> WalkNeighbors<Ix> | fn next
    /// Step to the next edge and its endpoint node in the walk for graph `g`.
    pub fn next<N, E, Ty: EdgeType>(
        &mut self,
        g: &Graph<N, E, Ty, Ix>,
    ) -> (r: Option<(EdgeIndex<Ix>, NodeIndex<Ix>)>)
        /*+*/requires old(self).ok(g.edges@)
        ensures final(self).ok(g.edges@), final(self).skip_start == old(self).skip_start,
            match r {
                Some(p) => old(self).rem(g.edges@) == seq![(p.0.i(), p.1)] + final(self).rem(g.edges@),        // [walk_next_is_head]
                None => old(self).rem(g.edges@).len() == 0 && final(self).rem(g.edges@).len() == 0,           // [walk_none_iff_exhausted]
            }/*-*/
    {
        /*+*/let ghost es = g.edges@;
        proof { lemma_chain_step(es, self.next[0], 0); }/*-*/
        // First any outgoing edges
        match g.edges.get(self.next[0].index()) {
            None => {}
            Some(edge) => {
                let ed = self.next[0];
                self.next[0] = edge.next[0];
                /*+*/proof {
                    let r0 = old(self).rest0(es);
                    assert(r0 == seq![old(self).next[0].0.ix() as int] + self.rest0(es));
                    assert(wk_out(es, r0) =~= seq![(ed.i(), edge.node[1])] + wk_out(es, self.rest0(es)));
                    assert(old(self).rem(es) =~= seq![(ed.i(), edge.node[1])] + self.rem(es));
                }/*-*/
                return Some((ed, edge.node[1]));
            }
        }
        // Then incoming edges
        // For an "undirected" iterator (traverse both incoming
        // and outgoing edge lists), make sure we don't double
        // count selfloops by skipping them in the incoming list.
        /*+*/proof { assert(wk_out(es, self.rest0(es)) =~= Seq::<(int, NodeIndex<Ix>)>::empty()); lemma_chain_step(es, self.next[1], 1); }/*-*/
        while let Some(edge) = g.edges.get(self.next[1].index())
            /*+*/invariant es == g.edges@, self.skip_start == old(self).skip_start, self.next[0] == old(self).next[0],
                self.next[0].0.ix() >= es.len(), self.ok(es),
                self.rem(es) == old(self).rem(es), self.rest0(es).len() == 0,
            ensures self.next[1].0.ix() >= es.len(),
            decreases self.rest1(es).len()/*-*/
        {
            /*+*/let ghost before = *self;
            proof { lemma_chain_step(es, self.next[1], 1); Ix::eq_law(); }/*-*/
            let ed = self.next[1];
            self.next[1] = edge.next[1];
            /*+*/proof {
                lemma_chain_step(es, self.next[0], 0);
                let r1 = before.rest1(es);
                assert(r1 == seq![before.next[1].0.ix() as int] + self.rest1(es));
                assert(r1.drop_first() =~= self.rest1(es));
                assert(self.rest0(es) == before.rest0(es));
            }/*-*/
            if edge.node[0] != self.skip_start {
                /*+*/proof { assert(before.rem(es) =~= seq![(ed.i(), edge.node[0])] + self.rem(es)); }/*-*/
                return Some((ed, edge.node[0]));
            }
            /*+*/proof { assert(before.rem(es) =~= self.rem(es)); }/*-*/
        }
        /*+*/proof {
            lemma_chain_step(es, self.next[1], 1); lemma_chain_step(es, self.next[0], 0);
            assert(self.rem(es) =~= Seq::<(int, NodeIndex<Ix>)>::empty());
        }/*-*/
        None
    }
//@ end

//@ item src/graph_impl/mod.rs | impl<Ix: IndexType> WalkNeighbors<Ix> | fn next_node
    pub fn next_node<N, E, Ty: EdgeType>(
        &mut self,
        g: &Graph<N, E, Ty, Ix>,
    ) -> (r: Option<NodeIndex<Ix>>)
        /*+*/requires old(self).ok(g.edges@)
        ensures final(self).ok(g.edges@),
            match r {
                Some(n) => old(self).rem(g.edges@).len() > 0 && old(self).rem(g.edges@)[0].1 == n && final(self).rem(g.edges@) == old(self).rem(g.edges@).drop_first(),   // [walk_next_node_is_head]
                None => old(self).rem(g.edges@).len() == 0,
            }/*-*/
    {
        /*+*/let ghost r0 = self.rem(g.edges@);
        let r = {/*-*/ self.next(g).map(|t/*+*/: (EdgeIndex<Ix>, NodeIndex<Ix>)/*-*/| /*+*/-> (x: NodeIndex<Ix>) ensures x == t.1 {/*-*/ t.1 /*+*/}/*-*/) /*+*/};
        proof { if r is Some { assert(r0.drop_first() =~= self.rem(g.edges@)); } }
        r/*-*/
    }
//@ end

//@ item src/graph_impl/mod.rs | impl<Ix: IndexType> WalkNeighbors<Ix> | fn next_edge
    pub fn next_edge<N, E, Ty: EdgeType>(
        &mut self,
        g: &Graph<N, E, Ty, Ix>,
    ) -> (r: Option<EdgeIndex<Ix>>)
        /*+*/requires old(self).ok(g.edges@)
        ensures final(self).ok(g.edges@),
            match r {
                Some(e) => old(self).rem(g.edges@).len() > 0 && old(self).rem(g.edges@)[0].0 == e.i() && final(self).rem(g.edges@) == old(self).rem(g.edges@).drop_first(),   // [walk_next_edge_is_head]
                None => old(self).rem(g.edges@).len() == 0,
            }/*-*/
    {
        /*+*/let ghost r0 = self.rem(g.edges@);
        let r = {/*-*/ self.next(g).map(|t/*+*/: (EdgeIndex<Ix>, NodeIndex<Ix>)/*-*/| /*+*/-> (x: EdgeIndex<Ix>) ensures x == t.0 {/*-*/ t.0 /*+*/}/*-*/) /*+*/};
        proof { if r is Some { assert(r0.drop_first() =~= self.rem(g.edges@)); } }
        r/*-*/
    }
//@ end
}
