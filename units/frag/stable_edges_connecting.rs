// ======================================================================================
// fragment stable_edges_connecting.rs - StableGraph::edges_connecting and its iterator (C02, C06): exactly the references that
// edges(a) yields whose target is b, in the same order (the StableGraph copy of graph_edges_connecting.rs; D33 via ex_find.rs)
// ======================================================================================

/// keep a reference iff its target is t
pub open spec fn to_target<'a, E, Ix: IndexType>(t: NodeIndex<Ix>) -> spec_fn(EdgeReference<'a, E, Ix>) -> Option<EdgeReference<'a, E, Ix>> {
    |e: EdgeReference<'a, E, Ix>| if e.node[1].i() == t.i() { Some(e) } else { None }
}

//@ item src/graph_impl/stable_graph/mod.rs | - | struct EdgesConnecting
/// Iterator over the multiple directed edges connecting a source node to a target node
pub struct EdgesConnecting<'a, E: 'a, Ty, Ix: 'a = DefaultIx>
where
    Ty: EdgeType,
    Ix: IndexType,
{
    target_node: NodeIndex<Ix>,
    edges: Edges<'a, E, Ty, Ix>,
    ty: PhantomData<Ty>,
}
//@ end

impl<'a, E, Ty: EdgeType, Ix: IndexType> EdgesConnecting<'a, E, Ty, Ix> {
    #[verifier::prophetic]
    pub closed spec fn rem(&self) -> Seq<EdgeReference<'a, E, Ix>> { fm_seq(IteratorSpec::remaining(&self.edges), to_target(self.target_node)) }
    pub closed spec fn dec(&self) -> Option<nat> { IteratorSpec::decrease(&self.edges) }
}
impl<'a, E, Ty: EdgeType, Ix: IndexType> vstd::std_specs::iter::IteratorSpecImpl for EdgesConnecting<'a, E, Ty, Ix> {
    closed spec fn obeys_prophetic_iter_laws(&self) -> bool { true }
    #[verifier::prophetic]
    closed spec fn remaining(&self) -> Seq<EdgeReference<'a, E, Ix>> { self.rem() }
    closed spec fn decrease(&self) -> Option<nat> { self.dec() }
    closed spec fn will_return_none(&self) -> bool { true }
    closed spec fn peek(&self, i: int) -> Option<EdgeReference<'a, E, Ix>> { None }
}

//@ item src/graph_impl/stable_graph/mod.rs | - | impl<'a, E, Ty, Ix> Iterator for EdgesConnecting<'a, E, Ty, Ix> where Ty: EdgeType, Ix: IndexType
impl<'a, E, Ty, Ix> Iterator for EdgesConnecting<'a, E, Ty, Ix>
where
    Ty: EdgeType,
    Ix: IndexType,
{
    type Item = EdgeReference<'a, E, Ix>;

    fn next(&mut self) -> Option<EdgeReference<'a, E, Ix>> {
        let target_node = self.target_node;
        /*+*/let ghost rem = IteratorSpec::remaining(&self.edges); let ghost g = to_target::<'a, E, Ix>(target_node);/*-*/
        /*R:D33 self.edges .by_ref() .find( */ let p = /*-*/ /*R:D10 |&edge| */ |edge: &EdgeReference<'a, E, Ix>| -> (b: bool) ensures b == (edge.node[1].i() == target_node.i()) { proof { Ix::eq_law(); } /*-*/ edge.node[1] == target_node /*+*/}/*-*/ /*R:D33 ) */ ; let ghost pg = p; let res = ex_find(&mut self.edges, p); /*-*/
        /*+*/proof {
            match res {
                Some(r) => {
                    let k = choose|k: int| 0 <= k < rem.len() && rem[k] == r && #[trigger] pg.ensures((&rem[k],), true)
                              && (forall|j: int| 0 <= j < k ==> #[trigger] pg.ensures((&rem[j],), false)) && IteratorSpec::remaining(&self.edges) == rem.skip(k + 1);
                    assert(g(rem[k]) == Some(r));
                    assert forall|j: int| 0 <= j < k implies g(#[trigger] rem[j]) is None by { assert(pg.ensures((&rem[j],), false)); }
                    lemma_fm_first(rem, g, k);
                    assert(old(self).rem() =~= seq![r] + self.rem());
                    assert((seq![r] + self.rem()).drop_first() =~= self.rem());
                },
                None => {
                    assert forall|j: int| 0 <= j < rem.len() implies g(#[trigger] rem[j]) is None by { assert(pg.ensures((&rem[j],), false)); }
                    lemma_fm_none(rem, g);
                    assert(IteratorSpec::remaining(&self.edges) =~= Seq::<EdgeReference<'a, E, Ix>>::empty());
                    assert(self.rem() =~= Seq::<EdgeReference<'a, E, Ix>>::empty());
                },
            }
        }
        res/*-*/
    }
    /*+*/#[verifier::external_body]/*-*/
    fn size_hint(&self) -> (usize, Option<usize>) {
        let (_, upper) = self.edges.size_hint();
        (0, upper)
    }
}
//@ end

impl<N, E, Ty, Ix> StableGraph<N, E, Ty, Ix>
where
    Ty: EdgeType,
    Ix: IndexType,
{
//@ item src/graph_impl/stable_graph/mod.rs | impl<N, E, Ty, Ix> StableGraph<N, E, Ty, Ix> where Ty: EdgeType, Ix: IndexType | fn edges_connecting
    /// Return an iterator over all the edges connecting `a` and `b`.
    ///
    /// - `Directed`: Outgoing edges from `a`.
    /// - `Undirected`: All edges connected to `a`.
    ///
    /// Iterator element type is `EdgeReference<E, Ix>`.
    pub fn edges_connecting(
        &self,
        a: NodeIndex<Ix>,
        b: NodeIndex<Ix>,
    ) -> (r: EdgesConnecting<E, Ty, Ix>)
        /*+*/requires self.wf()
        ensures r.obeys_prophetic_iter_laws(), r.decrease() is Some,
            r.remaining() == fm_seq(self.edges_seq(a.i(), 0), to_target(b))/*-*/   // [edges_connecting_is_edges_to_target]
    {
        EdgesConnecting {
            target_node: b,
            edges: self.edges_directed(a, Direction::Outgoing),
            ty: PhantomData,
        }
    }
//@ end
}

impl<N, E> StableGraph<N, E, Directed> {
//@ item src/graph_impl/stable_graph/mod.rs | impl<N, E> StableGraph<N, E, Directed> | fn new
    /// Create a new `StableGraph` with directed edges.
    ///
    /// This is a convenience method. See `StableGraph::with_capacity`
    /// or `StableGraph::default` for a constructor that is generic in all the
    /// type parameters of `StableGraph`.
    pub fn new() -> (r: Self)
        /*+*/ensures r.wf(), r.ns().len() == 0, r.es().len() == 0, r.node_count == 0, r.edge_count == 0/*-*/   // [new_is_empty]
    {
        Self::with_capacity(0, 0)
    }
//@ end
}

//@ item src/graph_impl/stable_graph/mod.rs | - | impl<N, E, Ty, Ix> Default for StableGraph<N, E, Ty, Ix> where Ty: EdgeType, Ix: IndexType
/// Create a new empty `StableGraph`.
impl<N, E, Ty, Ix> Default for StableGraph<N, E, Ty, Ix>
where
    Ty: EdgeType,
    Ix: IndexType,
{
    fn default() -> /*+*/(r:/*-*/ Self/*+*/)
        ensures r.wf(), r.ns().len() == 0, r.es().len() == 0, r.node_count == 0, r.edge_count == 0/*-*/   // [default_is_empty]
    {
        Self::with_capacity(0, 0)
    }
}
//@ end
