// ======================================================================================
// fragment matrix_build.rs - src/matrix_graph.rs: MatrixGraph as a `Build` (C04), against the trait contract of data_build_trait.rs:
// the graph is simple, so add_edge adds the edge when there is none and otherwise answers None and changes nothing;
// update_edge sets the cell.  (The trait's "the documented panics" preconditions carry MatrixGraph's domain: existing nodes,
// ids below 2^29, a weight the null-element representation can store.)
// ======================================================================================

impl<N, E, S: BuildHasher, Ty: EdgeType, Null: Nullable<Wrapped = E>, Ix: IndexType> MatrixGraph<N, E, S, Ty, Null, Ix> {
    /// `post` is `pre` with the cell (a, b) - and its mirror image when undirected - holding w; nothing else changes
    pub open spec fn cell_put(pre: &Self, a: int, b: int, w: E, post: &Self) -> bool {
        &&& post.wf() && post.cell(a, b) == Some(w) && (!post.d() ==> post.cell(b, a) == Some(w)) && post.nodes == pre.nodes
        &&& forall|x: int, y: int| !(x == a && y == b) && !(!post.d() && x == b && y == a) ==> #[trigger] post.cell(x, y) == pre.cell(x, y)
    }
    /// storable for every weight: true for `Option<E>`; NotZero refuses the sentinel
    pub open spec fn edge_dom(&self, a: NodeIndex<Ix>, b: NodeIndex<Ix>) -> bool {
        self.wf() && self.nodes.live(a.i()) && self.nodes.live(b.i()) && a.i() < 0x1fff_ffff && b.i() < 0x1fff_ffff && self.nb_edges < usize::MAX
            && forall|w: E| #[trigger] Null::storable(w)
    }
}

//@ item src/matrix_graph.rs | - | impl<N, E, S: BuildHasher, Ty: EdgeType, Null: Nullable<Wrapped = E>, Ix: IndexType> Build for MatrixGraph<N, E, S, Ty, Null, Ix> | provided=src/data.rs:trait Build:add_edge
impl<N, E, S: BuildHasher, Ty: EdgeType, Null: Nullable<Wrapped = E>, Ix: IndexType> Build
    for MatrixGraph<N, E, S, Ty, Null, Ix>
{
    /*+*/
    open spec fn add_node_pre(&self) -> bool { self.wf() && (self.nodes.upper_bound < Ix::spec_max() || self.nodes.removed_ids.view() != Set::<usize>::empty()) }
    open spec fn add_edge_pre(&self, a: NodeIndex<Ix>, b: NodeIndex<Ix>) -> bool { self.edge_dom(a, b) }
    open spec fn update_edge_pre(&self, a: NodeIndex<Ix>, b: NodeIndex<Ix>) -> bool { self.edge_dom(a, b) }
    open spec fn node_added(pre: &Self, w: N, post: &Self, n: NodeIndex<Ix>) -> bool {
        &&& post.wf() && !pre.nodes.live(n.i()) && post.nodes.live(n.i()) && post.nodes.elements@[n.i()] == Some(w) && post.nb_edges == pre.nb_edges
        &&& forall|i: int| i != n.i() ==> post.nodes.live(i) == pre.nodes.live(i)
        &&& forall|x: int, y: int| #[trigger] post.cell(x, y) == pre.cell(x, y)
    }
    /// a NEW edge: there was none between a and b, now the cell holds w and the count grew by one
    open spec fn edge_added(pre: &Self, a: NodeIndex<Ix>, b: NodeIndex<Ix>, w: E, post: &Self, e: (NodeIndex<Ix>, NodeIndex<Ix>)) -> bool {
        !pre.has(a.i(), b.i()) && Self::cell_put(pre, a.i(), b.i(), w, post) && post.nb_edges == pre.nb_edges + 1 && e == (a, b)
    }
    open spec fn edge_put(pre: &Self, a: NodeIndex<Ix>, b: NodeIndex<Ix>, w: E, post: &Self, e: (NodeIndex<Ix>, NodeIndex<Ix>)) -> bool {
        Self::cell_put(pre, a.i(), b.i(), w, post) && post.nb_edges == pre.nb_edges + (if pre.has(a.i(), b.i()) { 0int } else { 1int }) && e == (a, b)
    }
    /*-*/
    fn add_node(&mut self, weight: Self::NodeWeight) -> Self::NodeId {
        self.add_node(weight)
    }

    fn add_edge(
        &mut self,
        a: Self::NodeId,
        b: Self::NodeId,
        weight: Self::EdgeWeight,
    ) -> Option<Self::EdgeId> {
        if !self.has_edge(a, b) {
            MatrixGraph::update_edge(self, a, b, weight);
            Some((a, b))
        } else {
            None
        }
    }

    fn update_edge(
        &mut self,
        a: Self::NodeId,
        b: Self::NodeId,
        weight: Self::EdgeWeight,
    ) -> Self::EdgeId {
        MatrixGraph::update_edge(self, a, b, weight);
        (a, b)
    }
}
//@ end
