// ======================================================================================
// fragment visit_filter.rs - src/visit/filter.rs: the NodeFiltered adaptor (property C06), generic in the wrapped
// graph G and the filter F, against the trait contracts: it presents exactly the node-induced subgraph
// ======================================================================================

/// the members of s that satisfy p, in order
pub open spec fn filt<T>(s: Seq<T>, p: spec_fn(T) -> bool) -> Seq<T>
    decreases s.len()
{
    if s.len() == 0 { Seq::empty() } else { (if p(s[0]) { seq![s[0]] } else { Seq::empty() }) + filt(s.drop_first(), p) }
}
pub proof fn lemma_filt_find<T>(s: Seq<T>, p: spec_fn(T) -> bool, i: int)
    requires 0 <= i < s.len(), p(s[i]), forall|j: int| 0 <= j < i ==> !p(#[trigger] s[j])
    ensures filt(s, p) == seq![s[i]] + filt(s.skip(i + 1), p)
    decreases i
{
    if i == 0 { assert(s.drop_first() =~= s.skip(1)); }
    else {
        let t = s.drop_first();
        assert forall|j: int| 0 <= j < i - 1 implies !p(#[trigger] t[j]) by { assert(t[j] == s[j + 1]); }
        assert(t[i - 1] == s[i]);
        lemma_filt_find(t, p, i - 1);
        assert(t.skip(i) =~= s.skip(i + 1));
        assert(!p(s[0]));
        assert(Seq::<T>::empty() + filt(t, p) =~= filt(t, p));
    }
}
pub proof fn lemma_filt_none<T>(s: Seq<T>, p: spec_fn(T) -> bool)
    requires forall|j: int| 0 <= j < s.len() ==> !p(#[trigger] s[j])
    ensures filt(s, p).len() == 0
    decreases s.len()
{
    if s.len() > 0 {
        let t = s.drop_first();
        assert forall|j: int| 0 <= j < t.len() implies !p(#[trigger] t[j]) by { assert(t[j] == s[j + 1]); }
        lemma_filt_none(t, p);
        assert(!p(s[0]));
    }
}
pub proof fn lemma_filt_contains<T>(s: Seq<T>, p: spec_fn(T) -> bool, x: T)
    ensures filt(s, p).contains(x) <==> (s.contains(x) && p(x))
    decreases s.len()
{
    if s.len() > 0 {
        let t = s.drop_first();
        lemma_filt_contains(t, p, x);
        let hd: Seq<T> = if p(s[0]) { seq![s[0]] } else { Seq::empty() };
        let rest = filt(t, p); let full = hd + rest;
        if full.contains(x) {
            let q = choose|q: int| 0 <= q < full.len() && full[q] == x;
            if q < hd.len() { assert(s[0] == x); } else { assert(rest[q - hd.len()] == x); assert(rest.contains(x)); let j = choose|j: int| 0 <= j < t.len() && t[j] == x; assert(s[j + 1] == x); }
        }
        if s.contains(x) && p(x) {
            let j = choose|j: int| 0 <= j < s.len() && s[j] == x;
            if j == 0 { assert(full[0] == x); } else { assert(t[j - 1] == x); assert(rest.contains(x)); let q = choose|q: int| 0 <= q < rest.len() && rest[q] == x; assert(full[hd.len() + q] == x); }
        }
    }
}

//@ item src/visit/filter.rs | - | trait FilterNode
/// A graph filter for nodes.
pub trait FilterNode<N> {
    /*+*/spec fn inc(&self, node: N) -> bool;/*-*/
    /// Return true to have the node be part of the graph
    fn include_node(&self, node: N) -> (r: bool)
        /*+*/ensures r == self.inc(node)/*-*/;
}
//@ end

//@ item src/visit/filter.rs | - | struct NodeFiltered
/// A node-filtering graph adaptor.
#[derive(Copy, Clone)]
pub struct NodeFiltered<G, F>(pub G, pub F);
//@ end

//@ item src/visit/filter.rs | - | impl<G, F> GraphBase for NodeFiltered<G, F> where G: GraphBase
impl<G, F> GraphBase for NodeFiltered<G, F>
where
    G: GraphBase,
{
    type NodeId = G::NodeId;
    type EdgeId = G::EdgeId;
}
//@ end

//@ item src/visit/filter.rs | - | struct NodeFilteredNeighbors
/// A filtered neighbors iterator.
pub struct NodeFilteredNeighbors<'a, I, F: 'a> {
    pub include_source: bool,
    pub iter: I,
    pub f: &'a F,
}
//@ end

pub open spec fn inc_of<N, F: FilterNode<N>>(f: &F) -> spec_fn(N) -> bool { |x: N| f.inc(x) }

impl<'a, I, F> vstd::std_specs::iter::IteratorSpecImpl for NodeFilteredNeighbors<'a, I, F>
where
    I: Iterator,
    I::Item: Copy,
    F: FilterNode<I::Item>,
{
    open spec fn obeys_prophetic_iter_laws(&self) -> bool { self.iter.obeys_prophetic_iter_laws() }
    #[verifier::prophetic]
    open spec fn remaining(&self) -> Seq<I::Item> { if self.include_source { filt(self.iter.remaining(), inc_of(self.f)) } else { Seq::empty() } }
    open spec fn decrease(&self) -> Option<nat> { self.iter.decrease() }
    open spec fn will_return_none(&self) -> bool { true }
    open spec fn peek(&self, i: int) -> Option<I::Item> { None }
}

//@ item src/visit/filter.rs | - | impl<I, F> Iterator for NodeFilteredNeighbors<'_, I, F> where I: Iterator, I::Item: Copy, F: FilterNode<I::Item>
impl<I, F> Iterator for NodeFilteredNeighbors<'_, I, F>
where
    I: Iterator,
    I::Item: Copy,
    F: FilterNode<I::Item>,
{
    type Item = I::Item;
    // D25: `it.find(p)` is unfolded to std's definition `loop { match it.next() { None => None, Some(x) => if p(&x) { Some(x) } } }`
    // (vstd's specification of `find` says nothing about the termination measure).  Termination of that loop is NOT verified
    // (it depends on the wrapped iterator obeying its laws; no precondition is available on Iterator::next).
    /*+*/#[verifier::exec_allows_no_decreases_clause]/*-*/
    fn next(&mut self) -> Option<Self::Item> {
        let f = self.f;
        if !self.include_source {
            None
        } else {
            /*R:D25 self.iter.find(move |&target| */ {
                let mut __r: Option<I::Item> = None;
                loop
                    invariant f == self.f, self.include_source, old(self).include_source, self.f == old(self).f, __r is None,
                        self.iter.obeys_prophetic_iter_laws() == old(self).iter.obeys_prophetic_iter_laws(),
                        self.iter.obeys_prophetic_iter_laws() ==> (self.iter.decrease() is Some <==> old(self).iter.decrease() is Some),
                        self.iter.obeys_prophetic_iter_laws() ==> filt(self.iter.remaining(), inc_of(f)) == filt(old(self).iter.remaining(), inc_of(f)),
                        self.iter.obeys_prophetic_iter_laws() && old(self).iter.decrease() is Some ==> self.iter.decrease()->Some_0 <= old(self).iter.decrease()->Some_0,
                {
                    let ghost items = self.iter.remaining();
                    match self.iter.next() {
                        None => { proof { if self.iter.obeys_prophetic_iter_laws() { assert(items.len() == 0); assert(filt(items, inc_of(f)) =~= Seq::<I::Item>::empty()); } } return None; }
                        Some(target) => {
                            proof { if self.iter.obeys_prophetic_iter_laws() { assert(items.len() > 0 && items[0] == target); assert(self.iter.remaining() == items.drop_first()); } }
                            proof { if self.iter.obeys_prophetic_iter_laws() && !f.inc(target) { assert(!inc_of(f)(items[0])); assert(filt(items, inc_of(f)) =~= filt(items.drop_first(), inc_of(f))); } }
                            let keep = /*-*/ f.include_node(target) /*R:D25 ) */;
                            if keep {
                                proof { if self.iter.obeys_prophetic_iter_laws() {
                                    assert(inc_of(f)(items[0]));
                                    assert(filt(items, inc_of(f)) == seq![target] + filt(items.drop_first(), inc_of(f)));
                                    assert((seq![target] + filt(self.iter.remaining(), inc_of(f))).drop_first() =~= filt(self.iter.remaining(), inc_of(f))); } }
                                return Some(target);
                            }
                        }
                    }
                }
            } /*-*/
        }
    }
    /*+*/#[verifier::external_body]/*-*/
    fn size_hint(&self) -> (usize, Option<usize>) {
        let (_, upper) = self.iter.size_hint();
        (0, upper)
    }
}
//@ end

//@ item src/visit/filter.rs | - | impl<'a, G, F> IntoNeighbors for &'a NodeFiltered<G, F> where G: IntoNeighbors, F: FilterNode<G::NodeId>
impl<'a, G, F> IntoNeighbors for &'a NodeFiltered<G, F>
where
    G: IntoNeighbors,
    F: FilterNode<G::NodeId>,
{
    type Neighbors = NodeFilteredNeighbors<'a, G::Neighbors, F>;
    /*+*/
    open spec fn inv(self) -> bool { self.0.inv() }
    /// the node-induced subgraph: the nodes the filter includes ...
    open spec fn is_node(self, a: G::NodeId) -> bool { self.0.is_node(a) && self.1.inc(a) }
    /// ... and, between them, the edges of G
    open spec fn succ(self, a: G::NodeId) -> Seq<G::NodeId> { if self.1.inc(a) { filt(self.0.succ(a), inc_of(&self.1)) } else { Seq::empty() } }
    proof fn succ_law(self, a: G::NodeId) {
        self.0.succ_law(a);
        assert forall|i: int| 0 <= i < self.succ(a).len() implies self.is_node(#[trigger] self.succ(a)[i]) by {
            let x = self.succ(a)[i];
            assert(self.succ(a).contains(x));
            lemma_filt_contains(self.0.succ(a), inc_of(&self.1), x);
            let j = choose|j: int| 0 <= j < self.0.succ(a).len() && self.0.succ(a)[j] == x;
            assert(self.0.is_node(self.0.succ(a)[j]));
        }
        if !self.is_node(a) && self.1.inc(a) { assert(self.0.succ(a).len() == 0); }
    }
    /*-*/
    fn neighbors(self, n: G::NodeId) -> Self::Neighbors {
        NodeFilteredNeighbors {
            include_source: self.1.include_node(n),
            iter: self.0.neighbors(n),
            f: &self.1,
        }
    }
}
//@ end

//@ item src/visit/filter.rs | - | impl<'a, G, F> IntoNeighborsDirected for &'a NodeFiltered<G, F> where G: IntoNeighborsDirected, F: FilterNode<G::NodeId>
impl<'a, G, F> IntoNeighborsDirected for &'a NodeFiltered<G, F>
where
    G: IntoNeighborsDirected,
    F: FilterNode<G::NodeId>,
{
    type NeighborsDirected = NodeFilteredNeighbors<'a, G::NeighborsDirected, F>;
    /*+*/
    open spec fn nbrs(self, a: G::NodeId, d: Direction) -> Seq<G::NodeId> { if self.1.inc(a) { filt(self.0.nbrs(a, d), inc_of(&self.1)) } else { Seq::empty() } }
    proof fn dir_law(self, a: G::NodeId, b: G::NodeId) {
        self.0.dir_law(a, b); self.0.dir_law(b, a);
        lemma_filt_contains(self.0.nbrs(a, Direction::Incoming), inc_of(&self.1), b);
        lemma_filt_contains(self.0.succ(b), inc_of(&self.1), a);
        assert forall|i: int| 0 <= i < self.nbrs(a, Direction::Incoming).len() implies self.is_node(#[trigger] self.nbrs(a, Direction::Incoming)[i]) by {
            let x = self.nbrs(a, Direction::Incoming)[i];
            assert(self.nbrs(a, Direction::Incoming).contains(x));
            lemma_filt_contains(self.0.nbrs(a, Direction::Incoming), inc_of(&self.1), x);
            let j = choose|j: int| 0 <= j < self.0.nbrs(a, Direction::Incoming).len() && self.0.nbrs(a, Direction::Incoming)[j] == x;
            assert(self.0.is_node(self.0.nbrs(a, Direction::Incoming)[j]));
        }
        if self.1.inc(b) && !self.1.inc(a) && self.0.succ(b).contains(a) { }
    }
    /*-*/
    fn neighbors_directed(self, n: G::NodeId, dir: Direction) -> Self::NeighborsDirected {
        NodeFilteredNeighbors {
            include_source: self.1.include_node(n),
            iter: self.0.neighbors_directed(n, dir),
            f: &self.1,
        }
    }
}
//@ end

//@ item src/visit/filter.rs | - | impl<'a, G, F> IntoNodeIdentifiers for &'a NodeFiltered<G, F> where G: IntoNodeIdentifiers, F: FilterNode<G::NodeId>
impl<'a, G, F> IntoNodeIdentifiers for &'a NodeFiltered<G, F>
where
    G: IntoNodeIdentifiers,
    F: FilterNode<G::NodeId>,
{
    type NodeIdentifiers = NodeFilteredNeighbors<'a, G::NodeIdentifiers, F>;
    /*+*/open spec fn node_ids(self) -> Seq<G::NodeId> { filt(self.0.node_ids(), inc_of(&self.1)) }
    open spec fn ids_inv(self) -> bool { self.0.ids_inv() }/*-*/
    fn node_identifiers(self) -> Self::NodeIdentifiers {
        NodeFilteredNeighbors {
            include_source: true,
            iter: self.0.node_identifiers(),
            f: &self.1,
        }
    }
}
//@ end

// ---- edge references of the node-induced subgraph
// hand-expanded `Data! {delegate_impl [[G, F], G, NodeFiltered<G, F>, access0]}` (macro_rules expansion, NOT extracted)
impl<G, F> Data for NodeFiltered<G, F> where G: Data {
    type NodeWeight = G::NodeWeight;
    type EdgeWeight = G::EdgeWeight;
}

/// both endpoints are included
pub open spec fn edge_inc_of<R: EdgeRef, F: FilterNode<R::NodeId>>(f: &F) -> spec_fn(R) -> bool { |e: R| f.inc(e.src()) && f.inc(e.tgt()) }

//@ item src/visit/filter.rs | - | struct NodeFilteredEdgeReferences
/// A filtered edges iterator.
pub struct NodeFilteredEdgeReferences<'a, G, I, F: 'a> {
    pub graph: PhantomData<G>,
    pub iter: I,
    pub f: &'a F,
}
//@ end

impl<'a, G, I, F> vstd::std_specs::iter::IteratorSpecImpl for NodeFilteredEdgeReferences<'a, G, I, F>
where
    F: FilterNode<G::NodeId>,
    G: IntoEdgeReferences,
    I: Iterator<Item = G::EdgeRef>,
{
    open spec fn obeys_prophetic_iter_laws(&self) -> bool { self.iter.obeys_prophetic_iter_laws() }
    #[verifier::prophetic]
    open spec fn remaining(&self) -> Seq<G::EdgeRef> { filt(self.iter.remaining(), edge_inc_of::<G::EdgeRef, F>(self.f)) }
    open spec fn decrease(&self) -> Option<nat> { self.iter.decrease() }
    open spec fn will_return_none(&self) -> bool { true }
    open spec fn peek(&self, i: int) -> Option<G::EdgeRef> { None }
}

//@ item src/visit/filter.rs | - | impl<G, I, F> Iterator for NodeFilteredEdgeReferences<'_, G, I, F> where F: FilterNode<G::NodeId>, G: IntoEdgeReferences, I: Iterator<Item = G::EdgeRef>
impl<G, I, F> Iterator for NodeFilteredEdgeReferences<'_, G, I, F>
where
    F: FilterNode<G::NodeId>,
    G: IntoEdgeReferences,
    I: Iterator<Item = G::EdgeRef>,
{
    type Item = I::Item;
    // D25 (see NodeFilteredNeighbors::next); termination NOT verified
    /*+*/#[verifier::exec_allows_no_decreases_clause]/*-*/
    fn next(&mut self) -> Option<Self::Item> {
        let f = self.f;
        /*R:D25 self.iter
            .find(move |&edge| */ {
            let ghost p = edge_inc_of::<G::EdgeRef, F>(f);
            loop
                invariant f == self.f, self.f == old(self).f, p == edge_inc_of::<G::EdgeRef, F>(f),
                    self.iter.obeys_prophetic_iter_laws() == old(self).iter.obeys_prophetic_iter_laws(),
                    self.iter.obeys_prophetic_iter_laws() ==> (self.iter.decrease() is Some <==> old(self).iter.decrease() is Some),
                    self.iter.obeys_prophetic_iter_laws() ==> filt(self.iter.remaining(), p) == filt(old(self).iter.remaining(), p),
                    self.iter.obeys_prophetic_iter_laws() && old(self).iter.decrease() is Some ==> self.iter.decrease()->Some_0 <= old(self).iter.decrease()->Some_0,
            {
                let ghost items = self.iter.remaining();
                match self.iter.next() {
                    None => { proof { if self.iter.obeys_prophetic_iter_laws() { assert(items.len() == 0); assert(filt(items, p) =~= Seq::<G::EdgeRef>::empty()); } } return None; }
                    Some(edge) => {
                        proof { if self.iter.obeys_prophetic_iter_laws() { assert(items.len() > 0 && items[0] == edge); assert(self.iter.remaining() == items.drop_first()); } }
                        let keep = /*-*/ f.include_node(edge.source()) && f.include_node(edge.target()) /*R:D25 ) */;
                        proof { if self.iter.obeys_prophetic_iter_laws() {
                            assert(keep == p(items[0]));
                            if keep { assert(filt(items, p) == seq![edge] + filt(items.drop_first(), p)); assert((seq![edge] + filt(self.iter.remaining(), p)).drop_first() =~= filt(self.iter.remaining(), p)); }
                            else { assert(filt(items, p) =~= filt(items.drop_first(), p)); } } }
                        if keep { return Some(edge); }
                    }
                }
            }
        } /*-*/
    }
    /*+*/#[verifier::external_body]/*-*/
    fn size_hint(&self) -> (usize, Option<usize>) {
        let (_, upper) = self.iter.size_hint();
        (0, upper)
    }
}
//@ end

//@ item src/visit/filter.rs | - | impl<'a, G, F> IntoEdgeReferences for &'a NodeFiltered<G, F> where G: IntoEdgeReferences, F: FilterNode<G::NodeId>
impl<'a, G, F> IntoEdgeReferences for &'a NodeFiltered<G, F>
where
    G: IntoEdgeReferences,
    F: FilterNode<G::NodeId>,
{
    type EdgeRef = G::EdgeRef;
    type EdgeReferences = NodeFilteredEdgeReferences<'a, G, G::EdgeReferences, F>;
    /*+*/
    /// exactly the edges of G whose two endpoints are included
    open spec fn edge_refs(self) -> Seq<G::EdgeRef> { filt(self.0.edge_refs(), edge_inc_of::<G::EdgeRef, F>(&self.1)) }
    /*-*/
    fn edge_references(self) -> Self::EdgeReferences {
        NodeFilteredEdgeReferences {
            graph: PhantomData,
            iter: self.0.edge_references(),
            f: &self.1,
        }
    }
}
//@ end
