// ======================================================================================
// fragment visit_reversed_edges.rs - the edge side and the adjacency matrix of the `Reversed` adaptor (C06), generic in
// the wrapped graph: ReversedEdgeReference swaps source and target; edges / edges_directed / edge_references of
// Reversed<G> are G's incoming / opposite-direction / all edge references, each turned around, so that the IntoEdges
// law (the queried node is the source, the target is the corresponding neighbour) holds for the reversed graph; and
// is_adjacent(m, a, b) answers for G's edge b -> a.
//   D10: `.map(ReversedEdgeReference)` (a tuple-struct constructor used as a function) is written as the closure
//        `|r| ReversedEdgeReference(r)` with its type and `ensures`.
//   Data for Reversed<G> comes from a `delegate_impl!` expansion and is written out by hand (glue, NOT extracted).
// ======================================================================================

// hand-expanded `Data! {delegate_impl [[G], G, Reversed<G>, access0]}` (macro_rules expansion, NOT extracted)
impl<G: Data> Data for Reversed<G> {
    type NodeWeight = G::NodeWeight;
    type EdgeWeight = G::EdgeWeight;
}

//@ item src/visit/reversed.rs | - | struct ReversedEdgeReference
/// A reversed edge reference
#[derive(Copy, Clone, Debug)]
pub struct ReversedEdgeReference<R>(pub R);
//@ end

//@ item src/visit/reversed.rs | - | impl<R> EdgeRef for ReversedEdgeReference<R> where R: EdgeRef
/// An edge reference
impl<R> EdgeRef for ReversedEdgeReference<R>
where
    R: EdgeRef,
{
    type NodeId = R::NodeId;
    type EdgeId = R::EdgeId;
    type Weight = R::Weight;
    /*+*/open spec fn src(&self) -> R::NodeId { self.0.tgt() }
    open spec fn tgt(&self) -> R::NodeId { self.0.src() }
    open spec fn eid(&self) -> R::EdgeId { self.0.eid() }/*-*/
    fn source(&self) -> Self::NodeId {
        self.0.target()
    }
    fn target(&self) -> Self::NodeId {
        self.0.source()
    }
    fn weight(&self) -> &Self::Weight {
        self.0.weight()
    }
    fn id(&self) -> Self::EdgeId {
        self.0.id()
    }
}
//@ end

pub open spec fn rev_refs<R>(s: Seq<R>) -> Seq<ReversedEdgeReference<R>> { Seq::new(s.len(), |i: int| ReversedEdgeReference(s[i])) }

//@ item src/visit/reversed.rs | - | struct ReversedEdges
/// A reversed edges iterator.
pub struct ReversedEdges<I> {
    pub iter: I,
}
//@ end

impl<I: Iterator> ReversedEdges<I> where I::Item: EdgeRef {
    #[verifier::prophetic]
    pub open spec fn rem(&self) -> Seq<ReversedEdgeReference<I::Item>> { rev_refs(self.iter.remaining()) }
}
impl<I: Iterator> vstd::std_specs::iter::IteratorSpecImpl for ReversedEdges<I> where I::Item: EdgeRef {
    open spec fn obeys_prophetic_iter_laws(&self) -> bool { self.iter.obeys_prophetic_iter_laws() }
    #[verifier::prophetic]
    open spec fn remaining(&self) -> Seq<ReversedEdgeReference<I::Item>> { self.rem() }
    open spec fn decrease(&self) -> Option<nat> { self.iter.decrease() }
    open spec fn will_return_none(&self) -> bool { true }
    open spec fn peek(&self, i: int) -> Option<ReversedEdgeReference<I::Item>> { None }
}

//@ item src/visit/reversed.rs | - | impl<I> Iterator for ReversedEdges<I> where I: Iterator, I::Item: EdgeRef
impl<I> Iterator for ReversedEdges<I>
where
    I: Iterator,
    I::Item: EdgeRef,
{
    type Item = ReversedEdgeReference<I::Item>;
    fn next(&mut self) -> Option<Self::Item> {
        /*+*/let ghost items = self.iter.remaining();
        let r = {/*-*/ self.iter.next().map(/*R:D10 ReversedEdgeReference */ |__r: I::Item| -> (x: ReversedEdgeReference<I::Item>) ensures x == ReversedEdgeReference(__r) { ReversedEdgeReference(__r) } /*-*/) /*+*/};
        proof { if old(self).iter.obeys_prophetic_iter_laws() {
            if r is Some { assert(items.len() > 0 && r.unwrap() == ReversedEdgeReference(items[0])); assert(self.iter.remaining() == items.drop_first()); assert(old(self).rem() =~= seq![r.unwrap()] + self.rem()); }
            else { assert(self.rem() =~= Seq::<ReversedEdgeReference<I::Item>>::empty()); } } }
        r/*-*/
    }
    /*+*/#[verifier::external_body]/*-*/
    fn size_hint(&self) -> (usize, Option<usize>) {
        self.iter.size_hint()
    }
}
//@ end

//@ item src/visit/reversed.rs | - | struct ReversedEdgeReferences
/// A reversed edge references iterator.
pub struct ReversedEdgeReferences<I> {
    pub iter: I,
}
//@ end

impl<I: Iterator> ReversedEdgeReferences<I> where I::Item: EdgeRef {
    #[verifier::prophetic]
    pub open spec fn rem(&self) -> Seq<ReversedEdgeReference<I::Item>> { rev_refs(self.iter.remaining()) }
}
impl<I: Iterator> vstd::std_specs::iter::IteratorSpecImpl for ReversedEdgeReferences<I> where I::Item: EdgeRef {
    open spec fn obeys_prophetic_iter_laws(&self) -> bool { self.iter.obeys_prophetic_iter_laws() }
    #[verifier::prophetic]
    open spec fn remaining(&self) -> Seq<ReversedEdgeReference<I::Item>> { self.rem() }
    open spec fn decrease(&self) -> Option<nat> { self.iter.decrease() }
    open spec fn will_return_none(&self) -> bool { true }
    open spec fn peek(&self, i: int) -> Option<ReversedEdgeReference<I::Item>> { None }
}

//@ item src/visit/reversed.rs | - | impl<I> Iterator for ReversedEdgeReferences<I> where I: Iterator, I::Item: EdgeRef
impl<I> Iterator for ReversedEdgeReferences<I>
where
    I: Iterator,
    I::Item: EdgeRef,
{
    type Item = ReversedEdgeReference<I::Item>;
    fn next(&mut self) -> Option<Self::Item> {
        /*+*/let ghost items = self.iter.remaining();
        let r = {/*-*/ self.iter.next().map(/*R:D10 ReversedEdgeReference */ |__r: I::Item| -> (x: ReversedEdgeReference<I::Item>) ensures x == ReversedEdgeReference(__r) { ReversedEdgeReference(__r) } /*-*/) /*+*/};
        proof { if old(self).iter.obeys_prophetic_iter_laws() {
            if r is Some { assert(items.len() > 0 && r.unwrap() == ReversedEdgeReference(items[0])); assert(self.iter.remaining() == items.drop_first()); assert(old(self).rem() =~= seq![r.unwrap()] + self.rem()); }
            else { assert(self.rem() =~= Seq::<ReversedEdgeReference<I::Item>>::empty()); } } }
        r/*-*/
    }
    /*+*/#[verifier::external_body]/*-*/
    fn size_hint(&self) -> (usize, Option<usize>) {
        self.iter.size_hint()
    }
}
//@ end

//@ item src/visit/reversed.rs | - | impl<G> IntoEdgeReferences for Reversed<G> where G: IntoEdgeReferences
impl<G> IntoEdgeReferences for Reversed<G>
where
    G: IntoEdgeReferences,
{
    type EdgeRef = ReversedEdgeReference<G::EdgeRef>;
    type EdgeReferences = ReversedEdgeReferences<G::EdgeReferences>;
    /*+*/open spec fn edge_refs(self) -> Seq<ReversedEdgeReference<G::EdgeRef>> { rev_refs(self.0.edge_refs()) }/*-*/   // every edge of G once, turned around
    fn edge_references(self) -> Self::EdgeReferences {
        ReversedEdgeReferences {
            iter: self.0.edge_references(),
        }
    }
}
//@ end

//@ item src/visit/reversed.rs | - | impl<G> IntoEdges for Reversed<G> where G: IntoEdgesDirected
impl<G> IntoEdges for Reversed<G>
where
    G: IntoEdgesDirected,
{
    type Edges = ReversedEdges<G::EdgesDirected>;
    /*+*/
    open spec fn edges_of(self, a: G::NodeId) -> Seq<ReversedEdgeReference<G::EdgeRef>> { rev_refs(self.0.edges_dir(a, Direction::Incoming)) }
    proof fn edges_law(self, a: G::NodeId) {
        self.0.edges_dir_law(a, Direction::Incoming);
    }
    /*-*/
    fn edges(self, a: Self::NodeId) -> Self::Edges {
        ReversedEdges {
            iter: self.0.edges_directed(a, Incoming),
        }
    }
}
//@ end

//@ item src/visit/reversed.rs | - | impl<G> IntoEdgesDirected for Reversed<G> where G: IntoEdgesDirected
impl<G> IntoEdgesDirected for Reversed<G>
where
    G: IntoEdgesDirected,
{
    type EdgesDirected = ReversedEdges<G::EdgesDirected>;
    /*+*/
    open spec fn edges_dir(self, a: G::NodeId, d: Direction) -> Seq<ReversedEdgeReference<G::EdgeRef>> { rev_refs(self.0.edges_dir(a, d.opp())) }
    proof fn edges_dir_law(self, a: G::NodeId, d: Direction) {
        self.0.edges_dir_law(a, d.opp()); self.0.edges_dir_law(a, Direction::Incoming);
    }
    /*-*/
    fn edges_directed(self, a: Self::NodeId, dir: Direction) -> Self::Edges {
        ReversedEdges {
            iter: self.0.edges_directed(a, dir.opposite()),
        }
    }
}
//@ end

//@ item src/visit/reversed.rs | - | impl<G: GetAdjacencyMatrix> GetAdjacencyMatrix for Reversed<G>
impl<G: GetAdjacencyMatrix> GetAdjacencyMatrix for Reversed<G> {
    type AdjMatrix = G::AdjMatrix;
    /*+*/
    /// the reversed graph has an edge a -> b exactly when G has b -> a
    open spec fn adj(&self, a: G::NodeId, b: G::NodeId) -> bool { self.0.adj(b, a) }
    open spec fn adj_node(&self, a: G::NodeId) -> bool { self.0.adj_node(a) }
    open spec fn is_matrix(&self, m: &G::AdjMatrix) -> bool { self.0.is_matrix(m) }
    open spec fn adj_pre(&self) -> bool { self.0.adj_pre() }
    /*-*/
    fn adjacency_matrix(&self) -> Self::AdjMatrix {
        self.0.adjacency_matrix()
    }
    /// There is an edge from `a` to `b` in the reversed graph exactly when
    /// there is an edge from `b` to `a` in the underlying graph.
    fn is_adjacent(&self, matrix: &Self::AdjMatrix, a: Self::NodeId, b: Self::NodeId) -> bool {
        self.0.is_adjacent(matrix, b, a)
    }
}
//@ end

/// THE LAW that fixes the meaning of `adj` for the adaptor: if G's adjacency relation agrees with G's successor lists,
/// then the adaptor's adjacency relation agrees with the adaptor's successor lists (one consistent reversed graph).
pub proof fn lemma_reversed_adjacency_is_consistent<G: GetAdjacencyMatrix + IntoNeighborsDirected>(r: Reversed<G>, a: G::NodeId, b: G::NodeId)
    requires r.0.inv(), r.0.is_node(b),
        forall|x: G::NodeId, y: G::NodeId| #[trigger] r.0.adj(x, y) <==> r.0.succ(x).contains(y),
    ensures r.adj(a, b) <==> r.succ(a).contains(b)                 // [reversed_is_adjacent_agrees_with_reversed_neighbors]
{
    r.0.dir_law(a, b);
}
