// ======================================================================================
// fragment weighted_edge.rs - src/lib.rs: IntoWeightedEdge, the conversion `Graph::from_edges` / `extend_with_edges` read their
// input through (C01: the edge that is inserted runs from the FIRST component to the SECOND).  The trait contract names the two
// endpoints of the element; every impl defines them as the element's first and second component and is proved against it.
// NOT decided: the weight (Default / Clone of an arbitrary E carry no contract).
// ======================================================================================

//@ item src/lib.rs | - | trait IntoWeightedEdge
/// Convert an element like `(i, j)` or `(i, j, w)` into
/// a triple of source, target, edge weight.
///
/// For `Graph::from_edges` and `GraphMap::from_edges`.
pub trait IntoWeightedEdge<E>/*+*/: Sized/*-*/ {
    type NodeId;
    /*+*/spec fn we_source(self) -> Self::NodeId;
    spec fn we_target(self) -> Self::NodeId;/*-*/
    fn into_weighted_edge(self) -> /*+*/(r:/*-*/ (Self::NodeId, Self::NodeId, E)/*+*/)
        ensures r.0 == self.we_source(), r.1 == self.we_target()/*-*/;   // [into_weighted_edge_keeps_the_direction]
}
//@ end

//@ item src/lib.rs | - | impl<Ix, E> IntoWeightedEdge<E> for (Ix, Ix) where E: Default
impl<Ix, E> IntoWeightedEdge<E> for (Ix, Ix)
where
    E: Default,
{
    type NodeId = Ix;
    /*+*/open spec fn we_source(self) -> Ix { self.0 }
    open spec fn we_target(self) -> Ix { self.1 }/*-*/

    fn into_weighted_edge(self) -> (Ix, Ix, E) {
        let (s, t) = self;
        (s, t, E::default())
    }
}
//@ end

//@ item src/lib.rs | - | impl<Ix, E> IntoWeightedEdge<E> for (Ix, Ix, E)
impl<Ix, E> IntoWeightedEdge<E> for (Ix, Ix, E) {
    type NodeId = Ix;
    /*+*/open spec fn we_source(self) -> Ix { self.0 }
    open spec fn we_target(self) -> Ix { self.1 }/*-*/
    fn into_weighted_edge(self) -> (Ix, Ix, E) {
        self
    }
}
//@ end

//@ item src/lib.rs | - | impl<Ix, E> IntoWeightedEdge<E> for (Ix, Ix, &E) where E: Clone
impl<Ix, E> IntoWeightedEdge<E> for (Ix, Ix, &E)
where
    E: Clone,
{
    type NodeId = Ix;
    /*+*/open spec fn we_source(self) -> Ix { self.0 }
    open spec fn we_target(self) -> Ix { self.1 }/*-*/
    fn into_weighted_edge(self) -> (Ix, Ix, E) {
        let (a, b, c) = self;
        (a, b, c.clone())
    }
}
//@ end

//@ item src/lib.rs | - | impl<Ix, E> IntoWeightedEdge<E> for &(Ix, Ix) where Ix: Copy, E: Default
impl<Ix, E> IntoWeightedEdge<E> for &(Ix, Ix)
where
    Ix: Copy,
    E: Default,
{
    type NodeId = Ix;
    /*+*/open spec fn we_source(self) -> Ix { self.0 }
    open spec fn we_target(self) -> Ix { self.1 }/*-*/
    fn into_weighted_edge(self) -> (Ix, Ix, E) {
        let (s, t) = *self;
        (s, t, E::default())
    }
}
//@ end
