// ======================================================================================
// fragment graph_ops5.rs - Graph::remove_node (property C01): all incident edges go, the last
// node adopts the freed index, everything else keeps index and payload
// ======================================================================================

/// final edge j carries the payload of old edge f[j]; f is injective
pub open spec fn edge_map_ok<E, Ix: IndexType>(es0: Seq<Edge<E, Ix>>, es: Seq<Edge<E, Ix>>, f: Seq<int>) -> bool {
    &&& f.len() == es.len()
    &&& forall|j: int| 0 <= j < f.len() ==> 0 <= #[trigger] f[j] < es0.len() && es[j].weight == es0[f[j]].weight && es[j].node == es0[f[j]].node
    &&& forall|i: int, j: int| 0 <= i < j < f.len() ==> f[i] != f[j]
}
/// old edge i is incident to node a
pub open spec fn incident<E, Ix: IndexType>(es0: Seq<Edge<E, Ix>>, i: int, a: int) -> bool {
    es0[i].node[0].0.ix() == a || es0[i].node[1].0.ix() == a
}
/// the index a node has after node a was removed and the last node l adopted a's index
pub open spec fn renamed(x: int, l: int, a: int) -> int { if x == l { a } else { x } }

pub open spec fn moved_lists(ls: Seq<Seq<int>>, a: int) -> Seq<Seq<int>> {
    let l = ls.len() - 1;
    if a == l { ls.drop_last() } else { ls.update(a, ls[l]).drop_last() }
}

/// direction k after `swap_remove(a)` on the node array (a's k-list being empty) and after every edge's k-endpoint l was rewritten to a
pub proof fn lemma_node_moved_dir<N, E, Ix: IndexType>(ns0: Seq<Node<N, Ix>>, es0: Seq<Edge<E, Ix>>, ns1: Seq<Node<N, Ix>>, es1: Seq<Edge<E, Ix>>, k: int, ls: Seq<Seq<int>>, a: int)
    requires
        0 <= k < 2, lists_ok(ns0, es0, k, ls), es0.len() <= end_ix::<Ix>(), 0 <= a < ns0.len(), ls[a].len() == 0,
        forall|j: int| 0 <= j < es0.len() ==> (#[trigger] es0[j]).node[k].0.ix() < ns0.len(),
        ns1.len() == ns0.len() - 1,
        forall|x: int| 0 <= x < ns1.len() && x != a ==> (#[trigger] ns1[x]).next[k] == ns0[x].next[k],
        a < ns1.len() ==> ns1[a].next[k] == ns0[ns0.len() - 1].next[k],
        es1.len() == es0.len(),
        forall|j: int| 0 <= j < es0.len() ==> (#[trigger] es1[j]).next[k] == es0[j].next[k] && es1[j].node[k].0.ix() == renamed(es0[j].node[k].0.ix() as int, ns0.len() - 1, a),
    ensures
        lists_ok(ns1, es1, k, moved_lists(ls, a)),
        forall|j: int| 0 <= j < es1.len() ==> (#[trigger] es1[j]).node[k].0.ix() < ns1.len(),
{
    let l = ns0.len() - 1;
    let t = end_ix::<Ix>() as int;
    let ls1 = moved_lists(ls, a);
    // no edge has its k-endpoint at a
    assert forall|j: int| 0 <= j < es0.len() implies (#[trigger] es0[j]).node[k].0.ix() != a by {
        if es0[j].node[k].0.ix() == a { assert(ls[a].contains(j)); }
    }
    assert forall|x: int| 0 <= x < ns1.len() implies slist(es1, ns1[x].next[k], k, #[trigger] ls1[x]) && no_dup(ls1[x]) by {
        let src = if x == a { l } else { x };
        assert(ls1[x] == ls[src]);
        lemma_slist_is_tchain(es0, ns0[src].next[k], k, ls[src]);
        lemma_tchain_range(es0, ns0[src].next[k], k, ls[src], t);
        lemma_tchain_frame(es0, es1, ns0[src].next[k], k, ls[src], t);
        lemma_tchain_is_slist(es1, ns1[x].next[k], k, ls[src]);
    }
    assert forall|x: int, i: int| 0 <= x < ns1.len() && 0 <= i < ls1[x].len() implies es1[#[trigger] ls1[x][i]].node[k].0.ix() == x by {
        let src = if x == a { l } else { x };
        assert(ls1[x] == ls[src]);
        assert(es0[ls[src][i]].node[k].0.ix() == src);
        lemma_slist_range(es0, ns0[src].next[k], k, ls[src]);
    }
    assert forall|e: int| 0 <= e < es1.len() implies (#[trigger] ls1[es1[e].node[k].0.ix() as int]).contains(e) by {
        let x0 = es0[e].node[k].0.ix() as int;
        assert(ls[x0].contains(e));
        assert(x0 != a);
    }
}

impl<N, E, Ty, Ix> Graph<N, E, Ty, Ix>
where
    Ty: EdgeType,
    Ix: IndexType,
{
//@ item src/graph_impl/mod.rs | impl<N, E, Ty, Ix> Graph<N, E, Ty, Ix> where Ty: EdgeType, Ix: IndexType | fn remove_node
    /// Remove `a` from the graph if it exists, and return its weight.
    /// If it doesn't exist in the graph, return `None`.
    ///
    /// Apart from `a`, this invalidates the last node index in the graph
    /// (that node will adopt the removed node index). Edge indices are
    /// invalidated as they would be following the removal of each edge
    /// with an endpoint in `a`.
    /*+*/#[verifier::spinoff_prover]/*-*/
    pub fn remove_node(&mut self, a: NodeIndex<Ix>) -> (r: Option<N>)
        /*+*/requires old(self).wf()
        ensures final(self).wf(),
            a.i() >= old(self).n() ==> r is None && final(self).nodes@ == old(self).nodes@ && final(self).edges@ == old(self).edges@,   // [remove_node_absent_unchanged]
            a.i() < old(self).n() ==> ({
                let l = old(self).n() - 1;
                &&& r == Some(old(self).nodes@[a.i()].weight)                                                  // [remove_node_returns_weight]
                &&& final(self).n() == l                                                                       // [remove_node_count]
                &&& forall|x: int| 0 <= x < l ==> (#[trigger] final(self).nodes@[x]).weight == old(self).nodes@[if x == a.i() { l } else { x }].weight   // [remove_node_last_adopts_index]
                &&& exists|f: Seq<int>| #![auto] {
                        &&& f.len() == final(self).m()
                        &&& forall|i: int, j: int| 0 <= i < j < f.len() ==> f[i] != f[j]
                        &&& forall|j: int| 0 <= j < f.len() ==> 0 <= f[j] < old(self).m() && !incident(old(self).edges@, f[j], a.i())
                                && final(self).edges@[j].weight == old(self).edges@[f[j]].weight
                                && final(self).edges@[j].node[0].i() == renamed(old(self).edges@[f[j]].node[0].i(), l, a.i())
                                && final(self).edges@[j].node[1].i() == renamed(old(self).edges@[f[j]].node[1].i(), l, a.i())   // [remove_node_surviving_edges_renamed]
                        &&& forall|i: int| 0 <= i < old(self).m() && !incident(old(self).edges@, i, a.i()) ==> f.contains(i)    // [remove_node_takes_exactly_incident_edges]
                   }
            })/*-*/,
    {
        /*R:D16 self.nodes.get(a.index())?; */ match self.nodes.get(a.index()) { None => { return None; }, Some(__n) => {} } /*-*/
        /*+*/let ghost es0 = self.edges@; let ghost ns0 = self.nodes@; let ghost ai = a.i(); let ghost l = ns0.len() - 1;
        let ghost mut f: Seq<int> = Seq::new(es0.len(), |j: int| j);
        proof { assert forall|i: int| 0 <= i < es0.len() implies f.contains(i) by { assert(f[i] == i); } }/*-*/
        for d in /*+*/it:/*-*/ &DIRECTIONS
            /*+*/invariant it.seq().len() == 2, it.seq()[0].k() == 0, it.seq()[1].k() == 1,
                self.wf(), self.nodes@.len() == ns0.len(), 0 <= ai < ns0.len(), a.i() == ai, es0.len() <= end_ix::<Ix>(),
                forall|x: int| 0 <= x < ns0.len() ==> (#[trigger] self.nodes@[x]).weight == ns0[x].weight,
                edge_map_ok(es0, self.edges@, f),
                forall|i: int| 0 <= i < es0.len() && !incident(es0, i, ai) ==> f.contains(i),
                it.index@ >= 1 ==> (forall|j: int| 0 <= j < self.edges@.len() ==> (#[trigger] self.edges@[j]).node[0].0.ix() != ai),
                it.index@ >= 2 ==> (forall|j: int| 0 <= j < self.edges@.len() ==> (#[trigger] self.edges@[j]).node[1].0.ix() != ai),/*-*/
        {
            let k = d.index();
            /*+*/proof { assert(*d == it.seq()[it.index@]); assert(k == it.index@); }/*-*/

            // Remove all edges from and to this node.
            loop
                /*+*/invariant
                    self.wf(), self.nodes@.len() == ns0.len(), 0 <= ai < ns0.len(), a.i() == ai, k < 2, es0.len() <= end_ix::<Ix>(),
                    forall|x: int| 0 <= x < ns0.len() ==> (#[trigger] self.nodes@[x]).weight == ns0[x].weight,
                    edge_map_ok(es0, self.edges@, f),
                    forall|i: int| 0 <= i < es0.len() && !incident(es0, i, ai) ==> f.contains(i),
                    k >= 1 ==> (forall|j: int| 0 <= j < self.edges@.len() ==> (#[trigger] self.edges@[j]).node[0].0.ix() != ai),
                ensures
                    forall|j: int| 0 <= j < self.edges@.len() ==> (#[trigger] self.edges@[j]).node[k as int].0.ix() != ai,
                decreases self.edges@.len()/*-*/
            {
                let next = self.nodes[a.index()].next[k];
                /*+*/let ghost lsk = if k == 0 { self.outs() } else { self.inns() };
                proof { Ix::eq_law(); assert(slist(self.edges@, next, k as int, lsk[ai])); }/*-*/
                if next == EdgeIndex::end() {
                    /*+*/proof {
                        assert(lsk[ai].len() == 0) by { if lsk[ai].len() > 0 { assert(next.0.ix() == lsk[ai][0]); } }
                        assert forall|j: int| 0 <= j < self.edges@.len() implies (#[trigger] self.edges@[j]).node[k as int].0.ix() != ai by {
                            if self.edges@[j].node[k as int].0.ix() == ai { assert(lsk[ai].contains(j)); }
                        }
                    }/*-*/
                    break;
                }
                /*+*/let ghost es_b = self.edges@; let ghost ei = next.0.ix() as int;
                proof {
                    assert(lsk[ai].len() > 0 && ei == lsk[ai][0]) by { if lsk[ai].len() == 0 { } }
                    assert(0 <= ei < es_b.len());
                    assert(es_b[lsk[ai][0]].node[k as int].0.ix() == ai);
                }/*-*/
                let ret = self.remove_edge(next);
                debug_assert!(ret.is_some());
                let _ = ret;
                /*+*/proof {
                    let lastb = es_b.len() - 1;
                    let f2 = Seq::new((f.len() - 1) as nat, |j: int| if j == ei { f[lastb] } else { f[j] });
                    assert(edge_map_ok(es0, self.edges@, f2)) by {
                        assert forall|j: int| 0 <= j < f2.len() implies 0 <= #[trigger] f2[j] < es0.len() && self.edges@[j].weight == es0[f2[j]].weight && self.edges@[j].node == es0[f2[j]].node by {
                            let src = if j == ei { lastb } else { j };
                            assert(f2[j] == f[src]);
                        }
                    }
                    assert forall|i: int| 0 <= i < es0.len() && !incident(es0, i, ai) implies f2.contains(i) by {
                        assert(f.contains(i));
                        let q = choose|q: int| 0 <= q < f.len() && f[q] == i;
                        assert(q != ei) by { if q == ei { assert(es_b[ei].node == es0[i].node); } }
                        if q == lastb { assert(f2[ei] == i); } else { assert(f2[q] == i); }
                    }
                    if k >= 1 {
                        assert forall|j: int| 0 <= j < self.edges@.len() implies (#[trigger] self.edges@[j]).node[0].0.ix() != ai by {
                            let src = if j == ei { lastb } else { j };
                            assert(self.edges@[j].node == es_b[src].node);
                        }
                    }
                    f = f2;
                }/*-*/
            }
        }

        // Use swap_remove -- only the swapped-in node is going to change
        // NodeIndex<Ix>, so we only have to walk its edges and update them.
        /*+*/let ghost ns1 = self.nodes@; let ghost es1 = self.edges@; let ghost out1 = self.outs(); let ghost inn1 = self.inns();
        proof {
            assert(out1[ai].len() == 0) by { if out1[ai].len() > 0 { assert(es1[out1[ai][0]].node[0].0.ix() == ai); lemma_slist_range(es1, ns1[ai].next[0], 0, out1[ai]); } }
            assert(inn1[ai].len() == 0) by { if inn1[ai].len() > 0 { assert(es1[inn1[ai][0]].node[1].0.ix() == ai); lemma_slist_range(es1, ns1[ai].next[1], 1, inn1[ai]); } }
            // every surviving edge is a non-incident old edge
            assert forall|j: int| 0 <= j < f.len() implies !incident(es0, #[trigger] f[j], ai) by { assert(es1[j].node == es0[f[j]].node); }
        }/*-*/

        let node = self.nodes.swap_remove(a.index());
        /*+*/let ghost ns2 = self.nodes@;/*-*/

        // Find the edge lists of the node that had to relocate.
        // It may be that no node had to relocate, then we are done already.
        let swap_edges = match self.nodes.get(a.index()) {
            None => /*+*/{
                proof {
                    assert(ai == l);
                    assert(ns2 =~= ns1.drop_last());
                    lemma_node_moved_dir(ns1, es1, ns2, es1, 0, out1, ai);
                    lemma_node_moved_dir(ns1, es1, ns2, es1, 1, inn1, ai);
                    assert(self.wf_with(moved_lists(out1, ai), moved_lists(inn1, ai)));
                    self.lemma_wf_unique(moved_lists(out1, ai), moved_lists(inn1, ai));
                    assert forall|j: int| 0 <= j < f.len() implies self.edges@[j].node[0].i() == renamed(es0[f[j]].node[0].i(), l, ai) && self.edges@[j].node[1].i() == renamed(es0[f[j]].node[1].i(), l, ai) by {
                        assert(es1[j].node == es0[f[j]].node);
                    }
                }/*-*/
                return Some(node.weight)
            /*+*/}/*-*/,
            Some(ed) => ed.next,
        };

        // The swapped element's old index
        let old_index = NodeIndex::new(self.nodes.len());
        let new_index = a;
        /*+*/proof {
            assert(ai < l);
            assert(ns2.len() == l && ns2[ai] == ns1[l]);
            assert forall|x: int| 0 <= x < l && x != ai implies ns2[x] == ns1[x] by { }
            let oi: NodeIndex<Ix> = old_index; assert(oi.0.ix() == l);
        }/*-*/

        // Adjust the starts of the out edges, and ends of the in edges.
        for /*R:D5 &d */ __d /*-*/ in /*+*/it:/*-*/ &DIRECTIONS
            /*+*/invariant it.seq().len() == 2, it.seq()[0].k() == 0, it.seq()[1].k() == 1, it.seq()[0] == Direction::Outgoing, it.seq()[1] == Direction::Incoming,
                self.nodes@ == ns2, self.edges@.len() == es1.len(), ai < l, l == ns1.len() - 1, old_index.0.ix() == l, new_index == a, a.i() == ai, l <= end_ix::<Ix>(),
                swap_edges == ns1[l].next, es1.len() <= end_ix::<Ix>(),
                lists_ok(ns1, es1, 0, out1), lists_ok(ns1, es1, 1, inn1),
                forall|j: int| 0 <= j < es1.len() ==> (#[trigger] self.edges@[j]).next == es1[j].next && self.edges@[j].weight == es1[j].weight
                    && self.edges@[j].node[0].0.ix() == (if it.index@ >= 1 { renamed(es1[j].node[0].0.ix() as int, l, ai) } else { es1[j].node[0].0.ix() as int })
                    && self.edges@[j].node[1].0.ix() == (if it.index@ >= 2 { renamed(es1[j].node[1].0.ix() as int, l, ai) } else { es1[j].node[1].0.ix() as int }),/*-*/
        { /*+*/let d = *__d;/*-*/
            let k = d.index();
            /*+*/let ghost es_s = self.edges@; let ghost s = if k == 0 { out1[l] } else { inn1[l] }; let ghost mut i: int = 0; let ghost t = end_ix::<Ix>() as int;
            proof { assert(d == it.seq()[it.index@]); assert(k == it.index@);
                lemma_slist_is_tchain(es1, ns1[l].next[k as int], k as int, s);
                lemma_tchain_range(es1, ns1[l].next[k as int], k as int, s, t);
                assert forall|q: int| 0 <= q < s.len() implies (#[trigger] s[q]) < es_s.len() && es_s[s[q]].next[k as int] == es1[s[q]].next[k as int] by { }
                lemma_tchain_frame(es1, es_s, ns1[l].next[k as int], k as int, s, t);
                assert(s.subrange(0, s.len() as int) =~= s);
                assert forall|q: int| 0 <= q < s.len() implies es_s[#[trigger] s[q]].node[k as int].0.ix() == l by {
                    if k == 0 { assert(es1[out1[l][q]].node[0].0.ix() == l); } else { assert(es1[inn1[l][q]].node[1].0.ix() == l); }
                }
            }/*-*/
            let mut edges = edges_walker_mut(&mut self.edges, swap_edges[k], d);
            /*+*/let ghost mut cur: EdgeIndex<Ix> = swap_edges[k as int]; let ghost fin = final(edges.edges)@;
            proof { if s.len() == 0 { assert(s.subrange(0, 0) =~= s); } }/*-*/
            while let Some(curedge) = edges.next_edge()
                /*+*/invariant
                    0 <= i <= s.len(), edges.next == cur, final(edges.edges)@ == fin,
                    i < s.len() ==> cur.0.ix() < es_s.len(), i == s.len() ==> s.subrange(0, i) == s, k < 2, k == d.k(), edges.dir == d, edges.edges@.len() == es_s.len(), old_index.0.ix() == l, new_index == a, a.i() == ai, ai < l, l <= end_ix::<Ix>(),
                    tchain(es_s, cur, k as int, s.subrange(i, s.len() as int), t), no_dup(s), tchain(es_s, ns1[l].next[k as int], k as int, s, t),
                    forall|q: int| 0 <= q < s.len() ==> 0 <= #[trigger] s[q] < es_s.len() && es_s[s[q]].node[k as int].0.ix() == l,
                    forall|j: int| 0 <= j < es_s.len() ==> (#[trigger] edges.edges@[j]).next == es_s[j].next && edges.edges@[j].weight == es_s[j].weight
                        && edges.edges@[j].node[1 - k as int] == es_s[j].node[1 - k as int]
                        && edges.edges@[j].node[k as int].0.ix() == (if s.subrange(0, i).contains(j) { ai } else { es_s[j].node[k as int].0.ix() as int }),
                ensures i == s.len(), edges.edges@.len() == es_s.len(),
                    forall|j: int| 0 <= j < es_s.len() ==> (#[trigger] edges.edges@[j]).next == es_s[j].next && edges.edges@[j].weight == es_s[j].weight
                        && edges.edges@[j].node[1 - k as int] == es_s[j].node[1 - k as int]
                        && edges.edges@[j].node[k as int].0.ix() == (if s.contains(j) { ai } else { es_s[j].node[k as int].0.ix() as int }),
                decreases s.len() - i/*-*/
            {
                /*+*/proof {
                    let rest = s.subrange(i, s.len() as int);
                    assert(rest.len() > 0) by { if rest.len() == 0 { lemma_tchain_t(es_s, cur, k as int, rest, t); } }
                    assert(rest[0] == s[i]);
                    assert(!s.subrange(0, i).contains(s[i])) by {
                        if s.subrange(0, i).contains(s[i]) { let q = choose|q: int| 0 <= q < i && s.subrange(0, i)[q] == s[i]; assert(s[q] == s[i]); }
                    }
                    Ix::eq_law();
                }/*-*/
                debug_assert!(curedge.node[k] == old_index);
                curedge.node[k] = new_index;
                /*+*/proof {
                    assert(s.subrange(i + 1, s.len() as int) =~= s.subrange(i, s.len() as int).drop_first());
                    assert(s.subrange(0, i + 1) =~= s.subrange(0, i).push(s[i]));
                    let pre0 = s.subrange(0, i); let pre1 = s.subrange(0, i + 1);
                    assert(pre1[i] == s[i]);
                    assert forall|j: int| 0 <= j < es_s.len() implies (#[trigger] edges.edges@[j]).next == es_s[j].next && edges.edges@[j].weight == es_s[j].weight
                        && edges.edges@[j].node[1 - k as int] == es_s[j].node[1 - k as int]
                        && edges.edges@[j].node[k as int].0.ix() == (if pre1.contains(j) { ai } else { es_s[j].node[k as int].0.ix() as int }) by {
                        if j == s[i] { assert(pre1.contains(j)); }
                        else {
                            if pre0.contains(j) { let q = choose|q: int| 0 <= q < pre0.len() && pre0[q] == j; assert(pre1[q] == j); }
                            if pre1.contains(j) { let q = choose|q: int| 0 <= q < pre1.len() && pre1[q] == j; assert(q < i); assert(pre0[q] == j); }
                        }
                    }
                    lemma_tchain_succ(es_s, ns1[l].next[k as int], k as int, s, t, i);
                    cur = es_s[s[i]].next[k as int];
                    i = i + 1;
                    if i == s.len() { assert(s.subrange(0, i) =~= s); }
                }/*-*/
            }
        }
        /*+*/proof {
            let es3 = self.edges@;
            lemma_node_moved_dir(ns1, es1, ns2, es3, 0, out1, ai);
            lemma_node_moved_dir(ns1, es1, ns2, es3, 1, inn1, ai);
            assert(self.wf_with(moved_lists(out1, ai), moved_lists(inn1, ai)));
            self.lemma_wf_unique(moved_lists(out1, ai), moved_lists(inn1, ai));
            assert forall|j: int| 0 <= j < f.len() implies es3[j].node[0].i() == renamed(es0[f[j]].node[0].i(), l, ai) && es3[j].node[1].i() == renamed(es0[f[j]].node[1].i(), l, ai) by {
                assert(es1[j].node == es0[f[j]].node);
            }
        }/*-*/
        Some(node.weight)
    }
//@ end
}
