// ======================================================================================
// fragment visit_filter_nodes.rs - NodeFiltered: node_references (IntoNodeReferences) and the NodeFilteredNodes iterator (C06),
// generic in G and F: exactly the wrapped graph's node references whose node the filter accepts, in order - hence the same nodes,
// in the same order, as the adaptor's node_identifiers.  `find` is unfolded as in NodeFilteredNeighbors::next (D25).
// ======================================================================================

/// the filter, read through a node reference
pub open spec fn inc_ref_of<R: NodeRef, F: FilterNode<R::NodeId>>(f: &F) -> spec_fn(R) -> bool { |x: R| f.inc(x.nid()) }

/// filtering two sequences that correspond element by element, with predicates that agree on corresponding elements, keeps the correspondence
pub proof fn lemma_filt_parallel<A, B>(s: Seq<A>, t: Seq<B>, p: spec_fn(A) -> bool, q: spec_fn(B) -> bool, rel: spec_fn(A, B) -> bool)
    requires s.len() == t.len(), forall|i: int| 0 <= i < s.len() ==> rel(#[trigger] s[i], t[i]) && p(s[i]) == q(t[i])
    ensures filt(s, p).len() == filt(t, q).len(), forall|k: int| 0 <= k < filt(s, p).len() ==> rel(#[trigger] filt(s, p)[k], filt(t, q)[k])
    decreases s.len()
{
    if s.len() > 0 {
        let s1 = s.drop_first(); let t1 = t.drop_first();
        assert forall|i: int| 0 <= i < s1.len() implies rel(#[trigger] s1[i], t1[i]) && p(s1[i]) == q(t1[i]) by { assert(s1[i] == s[i + 1] && t1[i] == t[i + 1]); }
        lemma_filt_parallel(s1, t1, p, q, rel);
        assert(rel(s[0], t[0]) && p(s[0]) == q(t[0]));
    }
}

//@ item src/visit/filter.rs | - | struct NodeFilteredNodes
/// A filtered node references iterator.
pub struct NodeFilteredNodes<'a, I, F: 'a> {
    pub include_source: bool,
    pub iter: I,
    pub f: &'a F,
}
//@ end

impl<'a, I, F> vstd::std_specs::iter::IteratorSpecImpl for NodeFilteredNodes<'a, I, F>
where
    I: Iterator,
    I::Item: Copy + NodeRef,
    F: FilterNode<<I::Item as NodeRef>::NodeId>,
{
    open spec fn obeys_prophetic_iter_laws(&self) -> bool { self.iter.obeys_prophetic_iter_laws() }
    #[verifier::prophetic]
    open spec fn remaining(&self) -> Seq<I::Item> { if self.include_source { filt(self.iter.remaining(), inc_ref_of::<I::Item, F>(self.f)) } else { Seq::empty() } }
    open spec fn decrease(&self) -> Option<nat> { self.iter.decrease() }
    open spec fn will_return_none(&self) -> bool { true }
    open spec fn peek(&self, i: int) -> Option<I::Item> { None }
}

//@ item src/visit/filter.rs | - | impl<I, F> Iterator for NodeFilteredNodes<'_, I, F> where I: Iterator, I::Item: Copy + NodeRef, F: FilterNode<<I::Item as NodeRef>::NodeId>
impl<I, F> Iterator for NodeFilteredNodes<'_, I, F>
where
    I: Iterator,
    I::Item: Copy + NodeRef,
    F: FilterNode<<I::Item as NodeRef>::NodeId>,
{
    type Item = I::Item;
    // D25 (see NodeFilteredNeighbors::next); termination NOT verified
    /*+*/#[verifier::exec_allows_no_decreases_clause]/*-*/
    fn next(&mut self) -> Option<Self::Item> {
        let f = self.f;
        if !self.include_source {
            None
        } else {
            /*R:D25 self.iter.find(move |&target| */ {
                let ghost p = inc_ref_of::<I::Item, F>(f);
                loop
                    invariant f == self.f, self.include_source, old(self).include_source, self.f == old(self).f, p == inc_ref_of::<I::Item, F>(f),
                        self.iter.obeys_prophetic_iter_laws() == old(self).iter.obeys_prophetic_iter_laws(),
                        self.iter.obeys_prophetic_iter_laws() ==> (self.iter.decrease() is Some <==> old(self).iter.decrease() is Some),
                        self.iter.obeys_prophetic_iter_laws() ==> filt(self.iter.remaining(), p) == filt(old(self).iter.remaining(), p),
                        self.iter.obeys_prophetic_iter_laws() && old(self).iter.decrease() is Some ==> self.iter.decrease()->Some_0 <= old(self).iter.decrease()->Some_0,
                {
                    let ghost items = self.iter.remaining();
                    match self.iter.next() {
                        None => { proof { if self.iter.obeys_prophetic_iter_laws() { assert(items.len() == 0); assert(filt(items, p) =~= Seq::<I::Item>::empty()); } } return None; }
                        Some(target) => {
                            proof { if self.iter.obeys_prophetic_iter_laws() { assert(items.len() > 0 && items[0] == target); assert(self.iter.remaining() == items.drop_first()); } }
                            proof { if self.iter.obeys_prophetic_iter_laws() && !f.inc(target.nid()) { assert(!p(items[0])); assert(filt(items, p) =~= filt(items.drop_first(), p)); } }
                            let keep = /*-*/ f.include_node(target.id()) /*R:D25 ) */;
                            if keep {
                                proof { if self.iter.obeys_prophetic_iter_laws() {
                                    assert(p(items[0]));
                                    assert(filt(items, p) == seq![target] + filt(items.drop_first(), p));
                                    assert((seq![target] + filt(self.iter.remaining(), p)).drop_first() =~= filt(self.iter.remaining(), p)); } }
                                return Some(target);
                            }
                        }
                    }
                }
            } /*-*/
        }
    }
    /*+*/#[verifier::external_body]/*-*/
    fn size_hint(&self) -> (usize, Option<usize>) {
        let (_, upper) = self.iter.size_hint();
        (0, upper)
    }
}
//@ end

//@ item src/visit/filter.rs | - | impl<'a, G, F> IntoNodeReferences for &'a NodeFiltered<G, F> where G: IntoNodeReferences, F: FilterNode<G::NodeId>
impl<'a, G, F> IntoNodeReferences for &'a NodeFiltered<G, F>
where
    G: IntoNodeReferences,
    F: FilterNode<G::NodeId>,
{
    type NodeRef = G::NodeRef;
    type NodeReferences = NodeFilteredNodes<'a, G::NodeReferences, F>;
    fn node_references(self) -> Self::NodeReferences {
        /*+*/let r = {/*-*/ NodeFilteredNodes {
            include_source: true,
            iter: self.0.node_references(),
            f: &self.1,
        } /*+*/};
        proof {
            let refs = r.iter.remaining(); let ids = self.0.node_ids();
            let rel = |x: G::NodeRef, y: G::NodeId| x.nid() == y;
            lemma_filt_parallel(refs, ids, inc_ref_of::<G::NodeRef, F>(&self.1), inc_of(&self.1), rel);
        }
        r/*-*/
    }
}
//@ end
