#!/bin/sh
# Offline setup: nothing is fetched or built ahead of time; this only checks the tools the checks need.
set -e
cd "$(dirname "$0")"
command -v verus >/dev/null || { echo "verus not on PATH"; exit 1; }
command -v python3 >/dev/null || { echo "python3 missing"; exit 1; }
verus --version | head -2
(cargo kani --version 2>/dev/null || echo "kani: not found (only needed for the Kani kernels)") | head -1
mkdir -p evidence replay
python3 -c "import json; json.load(open('MANIFEST.json')); json.load(open('units/units.json')); print('manifest ok')"
