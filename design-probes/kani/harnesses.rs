// Kani harness modules used in the design probes. Each was appended to a scratch copy of the named
// /repo source file (see DESIGN.md §2, §8); they are not wired into any check.

// ---- appended to src/scored.rs ----
#[cfg(kani)]
mod __verif_kani {
    use super::*;
    #[kani::proof]
    fn minscored_f64_total_order() {
        let a: f64 = kani::any(); let b: f64 = kani::any(); let c: f64 = kani::any();
        let (x, y, z) = (MinScored(a, ()), MinScored(b, ()), MinScored(c, ()));
        assert!(x.cmp(&y) == y.cmp(&x).reverse());
        if x.cmp(&y) != Ordering::Greater && y.cmp(&z) != Ordering::Greater { assert!(x.cmp(&z) != Ordering::Greater); }
        if a < b { assert!(x.cmp(&y) == Ordering::Greater); }
        if a.is_nan() && !b.is_nan() { assert!(x.cmp(&y) == Ordering::Less); }
    }
}

// ---- appended to src/graph_impl/mod.rs ----
#[cfg(kani)]
mod __verif_kani {
    use super::*;
    #[kani::proof]
    fn index_twice_safe() {
        let mut v = [0u32, 1, 2, 3, 4];
        let a: usize = kani::any(); let b: usize = kani::any();
        match index_twice(&mut v[..], a, b) {
            Pair::None => assert!(a >= 5 || b >= 5),
            Pair::One(x) => { assert!(a == b && a < 5 && *x == a as u32); }
            Pair::Both(x, y) => { assert!(a != b && *x == a as u32 && *y == b as u32); *x = 9; assert!(*y == b as u32); }
        }
    }
}

// ---- appended to src/algo/dijkstra.rs ----
#[cfg(kani)]
mod __verif_kani {
    use super::*;
    use crate::graph::{Graph, NodeIndex};
    #[kani::proof]
    #[kani::unwind(12)]
    fn dijkstra_fixed_topo() {
        const E: [(usize, usize); 5] = [(0,1),(0,2),(1,2),(2,3),(1,3)];
        let mut g: Graph<(), u8, crate::Directed, u8> = Graph::with_capacity(4, 5);
        for _ in 0..4 { g.add_node(()); }
        let w: [u8; 5] = kani::any();
        for i in 0..5 { g.add_edge(NodeIndex::new(E[i].0), NodeIndex::new(E[i].1), w[i]); }
        let res = dijkstra(&g, NodeIndex::new(0), None, |e| *e.weight() as u32);
        let mut d = [u32::MAX; 4]; d[0] = 0;
        for _ in 0..3 { for i in 0..5 { let (a,b) = E[i]; if d[a] != u32::MAX && d[a] + (w[i] as u32) < d[b] { d[b] = d[a] + w[i] as u32; } } }
        for a in 0..4 {
            match res.get(&NodeIndex::new(a)) { None => assert!(d[a] == u32::MAX), Some(&x) => assert!(x == d[a]) }
        }
    }
}

// ---- appended to src/graphmap.rs ----
#[cfg(kani)]
mod __verif_kani {
    use super::*;
    use core::hash::{BuildHasherDefault, Hasher};
    #[derive(Default)]
    pub struct H(u64);
    impl Hasher for H {
        fn finish(&self) -> u64 { self.0 }
        fn write(&mut self, bytes: &[u8]) { for b in bytes { self.0 = self.0.wrapping_mul(31).wrapping_add(*b as u64); } }
    }
    #[kani::proof]
    #[kani::unwind(10)]
    fn graphmap_small() {
        let mut g: GraphMap<u8, u8, Directed, BuildHasherDefault<H>> = GraphMap::with_capacity_and_hasher(4, 4, Default::default());
        let a: u8 = kani::any(); let b: u8 = kani::any(); let c: u8 = kani::any();
        kani::assume(a < 3 && b < 3 && c < 3);
        g.add_edge(a, b, 1);
        g.add_edge(b, c, 2);
        let r = g.remove_edge(a, b);
        assert!(r.is_some());
        assert!(g.contains_edge(b, c) == !(a == b && b == c));
    }
}

// ---- appended to src/dot/mod.rs ----
#[cfg(kani)]
mod __verif_kani {
    use super::*;
    use core::fmt::Write;
    struct Sink { buf: [char; 4], n: usize }
    impl fmt::Write for Sink {
        fn write_str(&mut self, s: &str) -> fmt::Result { for c in s.chars() { self.write_char(c)?; } Ok(()) }
        fn write_char(&mut self, c: char) -> fmt::Result { if self.n < 4 { self.buf[self.n] = c; self.n += 1; Ok(()) } else { Err(fmt::Error) } }
    }
    #[kani::proof]
    #[kani::unwind(6)]
    fn escaper_char() {
        let c: char = kani::any();
        let mut e = Escaper(Sink { buf: ['\0'; 4], n: 0 });
        let r = e.write_char(c);
        assert!(r.is_ok());
        let s = e.0;
        if c == '"' || c == '\\' { assert!(s.n == 2 && s.buf[0] == '\\' && s.buf[1] == c); }
        else if c == '\n' { assert!(s.n == 2 && s.buf[0] == '\\' && s.buf[1] == 'l'); }
        else { assert!(s.n == 1 && s.buf[0] == c); }
    }
}

// ---- appended to src/algo/mod.rs ----
#[cfg(kani)]
mod __verif_kani {
    use super::*;
    #[kani::proof]
    fn overflowing_add_f64() {
        let a: f64 = kani::any(); let b: f64 = kani::any();
        kani::assume(a.is_finite() && b.is_finite());
        let (s, o) = <f64 as BoundedMeasure>::overflowing_add(a, b);
        // flag is set exactly when the mathematical sum leaves the finite range
        assert!(o == !(a + b).is_finite());
        if !o { assert!(s == a + b); }
    }
    #[kani::proof]
    fn overflowing_add_i32() {
        let a: i32 = kani::any(); let b: i32 = kani::any();
        let (s, o) = <i32 as BoundedMeasure>::overflowing_add(a, b);
        let m = a as i64 + b as i64;
        assert!(o == (m > i32::MAX as i64 || m < i32::MIN as i64));
        if !o { assert!(s as i64 == m); }
    }
}

// ---- appended to src/graph6/graph6_encoder.rs ----
#[cfg(kani)]
mod __verif_kani {
    use super::*;
    #[kani::proof]
    #[kani::unwind(8)]
    fn order_header_bits() {
        let order: usize = kani::any();
        kani::assume(order < 63);
        let bits = get_graph_order_as_bits(order);
        if order < 63 {
            assert!(bits.len() == 6);
            let mut v = 0usize; for i in 0..6 { assert!(bits[i] <= 1); v = v * 2 + bits[i]; }
            assert!(v == order);
        } else {
            assert!(bits.len() == 24);
            let mut h = 0usize; for i in 0..6 { h = h * 2 + bits[i]; }
            assert!(h == 63);
            let mut v = 0usize; for i in 6..24 { assert!(bits[i] <= 1); v = v * 2 + bits[i]; }
            assert!(v == order);
        }
    }
}

// ---- appended to src/matrix_graph.rs ----
#[cfg(kani)]
mod __verif_kani {
    use super::*;
    fn one(old: usize, req: usize, exact: bool) {
        let mut v: Vec<u8> = Vec::with_capacity(256);
        let mut model = [[0u8; 6]; 6];
        for r in 0..old { for c in 0..old { let x: u8 = kani::any(); model[r][c] = x; v.push(x); } }
        let newcap = extend_flat_square_matrix(&mut v, old, req, exact);
        assert!(newcap >= req);
        assert!(v.len() == newcap * newcap);
        let r: usize = kani::any(); let c: usize = kani::any();
        kani::assume(r < newcap && c < newcap);
        let got = v[r * newcap + c];
        if r < old && c < old { assert!(got == model[r][c]); } else { assert!(got == 0); }
    }
    #[kani::proof]
    #[kani::unwind(70)]
    fn extend_flat_enum() {
        one(0, 1, false); one(0, 3, true); one(1, 2, false); one(2, 3, true); one(3, 4, true); one(3, 4, false);
        one(4, 5, false); one(4, 5, true); one(4, 6, true); one(5, 6, true); one(2, 5, true);
    }
}

// ---- external-crate harnesses (k1/src/lib.rs) ----
#[cfg(kani)]
mod proofs {
    use petgraph::unionfind::UnionFind;
    use petgraph::graph::{Graph, NodeIndex, EdgeIndex};
    use petgraph::Directed;

    #[kani::proof]
    #[kani::unwind(6)]
    fn uf_small() {
        let mut uf: UnionFind<u8> = UnionFind::new(4);
        let a: u8 = kani::any(); let b: u8 = kani::any();
        let c: u8 = kani::any(); let d: u8 = kani::any();
        kani::assume(a < 4 && b < 4 && c < 4 && d < 4);
        let r1 = uf.union(a, b);
        assert!(r1 == (a != b));
        let r2 = uf.union(c, d);
        assert!(uf.equiv(a, b));
        assert!(uf.equiv(c, d));
        let x: u8 = kani::any(); let y: u8 = kani::any();
        kani::assume(x < 4 && y < 4);
        // oracle
        let conn = |p: u8, q: u8| -> bool {
            let e1 = |p: u8, q: u8| (p == a && q == b) || (p == b && q == a);
            let e2 = |p: u8, q: u8| (p == c && q == d) || (p == d && q == c);
            p == q || e1(p,q) || e2(p,q) || 
            // two-step
            (0..4u8).any(|m| (e1(p,m) && e2(m,q)) || (e2(p,m) && e1(m,q)))
        };
        assert!(uf.equiv(x, y) == conn(x, y));
        let _ = r2;
    }

    #[kani::proof]
    #[kani::unwind(5)]
    fn graph_small() {
        let mut g: Graph<(), u8, Directed, u8> = Graph::with_capacity(0,0);
        let n0 = g.add_node(()); let n1 = g.add_node(()); let n2 = g.add_node(());
        let s: [u8; 3] = kani::any(); let t: [u8; 3] = kani::any();
        for i in 0..3 { kani::assume(s[i] < 3 && t[i] < 3); }
        for i in 0..3 { g.add_edge(NodeIndex::new(s[i] as usize), NodeIndex::new(t[i] as usize), i as u8); }
        let r: u8 = kani::any(); kani::assume(r < 3);
        g.remove_edge(EdgeIndex::new(r as usize));
        assert!(g.edge_count() == 2);
        // every out-list walk is consistent
        let a: u8 = kani::any(); kani::assume(a < 3);
        let mut cnt = 0;
        for _ in g.neighbors(NodeIndex::new(a as usize)) { cnt += 1; }
        let mut exp = 0;
        for e in g.raw_edges() { if e.source().index() == a as usize { exp += 1; } }
        assert!(cnt == exp);
        let _ = (n0,n1,n2);
    }
}

#[cfg(kani)]
mod proofs2 {
    use petgraph::graph::{Graph, NodeIndex};
    use petgraph::Directed;
    use petgraph::algo::{tarjan_scc, dijkstra, toposort};

    fn sym_graph3() -> (Graph<(), u8, Directed, u8>, [u8;3], [u8;3], [u8;3]) {
        let mut g: Graph<(), u8, Directed, u8> = Graph::with_capacity(0,0);
        g.add_node(()); g.add_node(()); g.add_node(());
        let s: [u8; 3] = kani::any(); let t: [u8; 3] = kani::any(); let w: [u8;3] = kani::any();
        for i in 0..3 { kani::assume(s[i] < 3 && t[i] < 3 && w[i] < 16); }
        for i in 0..3 { g.add_edge(NodeIndex::new(s[i] as usize), NodeIndex::new(t[i] as usize), w[i]); }
        (g, s, t, w)
    }

    #[kani::proof]
    #[kani::unwind(8)]
    fn scc3() {
        let (g, s, t, _w) = sym_graph3();
        let sccs = tarjan_scc(&g);
        // reach matrix oracle
        let mut r = [[false;3];3];
        for i in 0..3 { r[i][i] = true; }
        for i in 0..3 { r[s[i] as usize][t[i] as usize] = true; }
        for k in 0..3 { for i in 0..3 { for j in 0..3 { if r[i][k] && r[k][j] { r[i][j] = true; } } } }
        let mut comp = [usize::MAX;3];
        let mut total = 0;
        for (ci, c) in sccs.iter().enumerate() { for n in c { comp[n.index()] = ci; total += 1; } }
        assert!(total == 3);
        let a: usize = kani::any(); let b: usize = kani::any();
        kani::assume(a < 3 && b < 3);
        assert!((comp[a] == comp[b]) == (r[a][b] && r[b][a]));
    }

    #[kani::proof]
    #[kani::unwind(8)]
    fn dijkstra3() {
        let (g, s, t, w) = sym_graph3();
        let res = dijkstra(&g, NodeIndex::new(0), None, |e| *e.weight() as u32);
        // oracle: bellman-ford 3 rounds
        let mut d = [u32::MAX; 3]; d[0] = 0;
        for _ in 0..3 { for i in 0..3 { let (a,b) = (s[i] as usize, t[i] as usize); if d[a] != u32::MAX && d[a] + (w[i] as u32) < d[b] { d[b] = d[a] + w[i] as u32; } } }
        let a: usize = kani::any(); kani::assume(a < 3);
        match res.get(&NodeIndex::new(a)) { None => assert!(d[a] == u32::MAX), Some(&x) => assert!(x == d[a]) }
    }
}
