use vstd::prelude::*;
verus! {
pub struct Node { pub weight: u64, pub next: [u32;2] }
pub struct G { pub nodes: Vec<Node> }
pub struct Frozen<'a>(pub &'a mut G);

impl G {
    pub fn node_count(&self) -> (r: usize) ensures r == self.nodes.len() { self.nodes.len() }
    pub fn remove_node(&mut self, a: usize) -> (r: Option<u64>) 
        ensures final(self).nodes.len() <= old(self).nodes.len()
    { if a < self.nodes.len() { Some(self.nodes.swap_remove(a).weight) } else { None } }

    #[verifier::exec_allows_no_decreases_clause]
    pub fn retain_nodes<F>(&mut self, mut visit: F)
    where
        F: FnMut(Frozen, usize) -> bool,
    {
        for index in (0..self.node_count()).rev() {
            if !visit(Frozen(self), index) {
                let ret = self.remove_node(index);
                assert(ret.is_some());
                let _ = ret;
            }
        }
    }
}
}
fn main() {}
