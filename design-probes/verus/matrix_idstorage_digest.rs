use vstd::prelude::*;
use core::marker::PhantomData;
use core::mem;
use core::cmp;
verus! {
global size_of usize == 8;

pub trait EdgeType {
    spec fn spec_is_directed() -> bool;
    fn is_directed() -> (r: bool) ensures r == Self::spec_is_directed();
}
pub trait Nullable: Default + Into<Option<<Self as Nullable>::Wrapped>> {
    type Wrapped;
    fn new(value: Self::Wrapped) -> Self;
    fn as_ref(&self) -> Option<&Self::Wrapped>;
    fn as_mut(&mut self) -> Option<&mut Self::Wrapped>;
    fn is_null(&self) -> bool;
}

// stand-in for indexmap::IndexSet<usize, S>
#[verifier::external_body]
#[verifier::reject_recursive_types(S)]
pub struct IndexSet<S> { p: PhantomData<S> }
impl<S> IndexSet<S> {
    pub uninterp spec fn view(&self) -> Set<usize>;
    #[verifier::external_body]
    pub fn pop(&mut self) -> (r: Option<usize>)
        ensures match r { Some(x) => old(self).view().contains(x) && final(self).view() == old(self).view().remove(x),
                          None => old(self).view().len() == 0 && final(self).view() == old(self).view() },
    { unimplemented!() }
    #[verifier::external_body]
    pub fn insert(&mut self, x: usize) -> (r: bool)
        ensures final(self).view() == old(self).view().insert(x)
    { unimplemented!() }
    #[verifier::external_body]
    pub fn len(&self) -> (r: usize) ensures r == self.view().len(), self.view().finite()
    { unimplemented!() }
    #[verifier::external_body]
    pub fn contains(&self, x: &usize) -> (r: bool) ensures r == self.view().contains(*x)
    { unimplemented!() }
}

pub assume_specification<T>[ core::mem::replace::<T> ](dest: &mut T, src: T) -> (r: T)
    ensures r == *old(dest), *final(dest) == src;

struct IdStorage<T, S> {
    elements: Vec<Option<T>>,
    upper_bound: usize,
    removed_ids: IndexSet<S>,
}

#[verifier::external_body]
fn ensure_len<T: Default>(v: &mut Vec<T>, size: usize) 
    ensures final(v)@.len() == (if old(v)@.len() >= size { size } else { size }) // resize_with truncates too
{
    v.resize_with(size, T::default);
}

impl<T, S> IdStorage<T, S> {
    fn add(&mut self, element: T) -> usize {
        let id = if let Some(id) = self.removed_ids.pop() {
            id
        } else {
            let id = self.upper_bound;
            self.upper_bound += 1;

            ensure_len(&mut self.elements, id + 1);

            id
        };

        self.elements[id] = Some(element);

        id
    }

    fn remove(&mut self, id: usize) -> T {
        let data = self.elements[id].take().unwrap();
        if self.upper_bound - id == 1 {
            self.upper_bound -= 1;
        } else {
            self.removed_ids.insert(id);
        }
        data
    }
    #[inline]
    fn len(&self) -> usize {
        self.upper_bound - self.removed_ids.len()
    }
}

#[inline]
fn to_linearized_matrix_position<Ty: EdgeType>(row: usize, column: usize, width: usize) -> usize {
    if Ty::is_directed() {
        to_flat_square_matrix_position(row, column, width)
    } else {
        to_lower_triangular_matrix_position(row, column)
    }
}
#[inline]
fn to_flat_square_matrix_position(row: usize, column: usize, width: usize) -> usize {
    row * width + column
}
#[inline]
fn to_lower_triangular_matrix_position(row: usize, column: usize) -> usize {
    let (row, column) = if row > column {
        (row, column)
    } else {
        (column, row)
    };
    (row * (row + 1)) / 2 + column
}

pub struct MatrixGraph<N, E, S, Ty, Null: Nullable<Wrapped = E>, Ix> {
    node_adjacencies: Vec<Null>,
    node_capacity: usize,
    nodes: IdStorage<N, S>,
    nb_edges: usize,
    ty: PhantomData<Ty>,
    ix: PhantomData<Ix>,
}

impl<N, E, S, Ty: EdgeType, Null: Nullable<Wrapped = E>, Ix>
    MatrixGraph<N, E, S, Ty, Null, Ix>
{
    #[inline]
    fn to_edge_position(&self, a: usize, b: usize) -> Option<usize> {
        if cmp::max(a, b) >= self.node_capacity {
            return None;
        }
        Some(to_linearized_matrix_position::<Ty>(a, b, self.node_capacity))
    }
    pub fn update_edge(&mut self, a: usize, b: usize, weight: E) -> Option<E> {
        let p = to_linearized_matrix_position::<Ty>(a, b, self.node_capacity);
        let old_weight = mem::replace(&mut self.node_adjacencies[p], Null::new(weight));
        if old_weight.is_null() {
            self.nb_edges += 1;
        }
        old_weight.into()
    }
    pub fn try_remove_edge(&mut self, a: usize, b: usize) -> Option<E> {
        let p = self.to_edge_position(a, b)?;
        if let Some(entry) = self.node_adjacencies.get_mut(p) {
            let old_weight = mem::take(entry).into()?;
            self.nb_edges -= 1;
            return Some(old_weight);
        }
        None
    }
}

}
fn main() {}
