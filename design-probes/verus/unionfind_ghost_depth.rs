use vstd::prelude::*;
verus! {
pub struct UF { pub parent: Vec<usize>, pub rank: Vec<u8> }
impl UF {
    pub open spec fn valid_depth(&self, d: Seq<nat>) -> bool {
        &&& d.len() == self.parent.len()
        &&& forall|i: int| 0 <= i < self.parent.len() && self.parent@[i] != i ==> d[#[trigger] self.parent@[i] as int] < d[i]
    }
    pub open spec fn wf(&self) -> bool {
        &&& self.parent.len() == self.rank.len()
        &&& forall|i: int| 0 <= i < self.parent.len() ==> (#[trigger] self.parent@[i]) < self.parent.len()
        &&& exists|d: Seq<nat>| self.valid_depth(d)
    }
    pub open spec fn depth(&self) -> Seq<nat> { choose|d: Seq<nat>| self.valid_depth(d) }
    pub open spec fn root(&self, i: int) -> int
        decreases self.depth()[i]
        when self.wf() && 0 <= i < self.parent.len()
    {
        if self.parent@[i] == i { i } else { self.root(self.parent@[i] as int) }
    }
    pub fn try_find(&self, mut x: usize) -> (r: Option<usize>)
        requires self.wf()
        ensures r is None <==> x >= self.parent.len(), r is Some ==> r.unwrap() == self.root(x as int),
    {
        if x >= self.parent.len() { return None; }
        let ghost x0 = x;
        loop
            invariant self.wf(), x < self.parent.len(), self.root(x as int) == self.root(x0 as int),
            ensures self.parent@[x as int] == x, self.root(x as int) == self.root(x0 as int), x < self.parent.len(),
            decreases self.depth()[x as int]
        {
            let xparent = self.parent[x];
            if xparent == x { break; }
            x = xparent;
        }
        Some(x)
    }
}
}
fn main() {}
