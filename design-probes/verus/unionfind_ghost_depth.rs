use vstd::prelude::*;
use vstd::std_specs::cmp::*;
use core::cmp::Ordering;
verus! {
global size_of usize == 8;

pub unsafe trait IndexType: Copy + PartialEq {
    spec fn ix(&self) -> usize;
    spec fn spec_max() -> usize;
    proof fn eq_law()
        ensures Self::obeys_eq_spec(),
                forall|a: Self, b: Self| #[trigger] a.eq_spec(&b) <==> a.ix() == b.ix();
    fn new(x: usize) -> (r: Self)
        ensures x <= Self::spec_max() ==> r.ix() == x;
    fn index(&self) -> (r: usize)
        ensures r == self.ix(), r <= Self::spec_max();
    fn max() -> (r: Self)
        ensures r.ix() == Self::spec_max();
}

pub struct UnionFind<K> {
    pub parent: Vec<K>,
    pub rank: Vec<u8>,
}

#[inline]
#[verifier::external_body]
unsafe fn get_unchecked<K>(xs: &[K], index: usize) -> (r: &K)
    requires index < xs@.len()
    ensures *r == xs@[index as int]
{ xs.get_unchecked(index) }

#[inline]
#[verifier::external_body]
unsafe fn get_unchecked_mut<K>(xs: &mut [K], index: usize) -> (r: &mut K)
    requires index < old(xs)@.len()
    ensures *r == old(xs)@[index as int], final(xs)@ == old(xs)@.update(index as int, *final(r))
{ xs.get_unchecked_mut(index) }

impl<K: IndexType> UnionFind<K> {
    // ---------- abstraction: acyclicity through a ghost depth function, nothing about `rank` ----------
    pub open spec fn p(&self, i: int) -> int { self.parent@[i].ix() as int }
    pub open spec fn valid_depth(&self, d: Seq<nat>) -> bool {
        &&& d.len() == self.parent.len()
        &&& forall|i: int| 0 <= i < self.parent.len() && self.p(i) != i ==> d[#[trigger] self.p(i)] < d[i]
    }
    pub open spec fn wf(&self) -> bool {
        &&& self.parent.len() == self.rank.len()
        &&& forall|i: int| 0 <= i < self.parent.len() ==> 0 <= #[trigger] self.p(i) < self.parent.len()
        &&& exists|d: Seq<nat>| self.valid_depth(d)
    }
    pub open spec fn depth(&self) -> Seq<nat> { choose|d: Seq<nat>| self.valid_depth(d) }
    pub open spec fn root(&self, i: int) -> int
        decreases self.depth()[i]
        when self.wf() && 0 <= i < self.parent.len()
    {
        if self.p(i) == i { i } else { self.root(self.p(i)) }
    }
    pub open spec fn same_roots(&self, o: &Self) -> bool {
        &&& self.parent.len() == o.parent.len()
        &&& forall|i: int| 0 <= i < self.parent.len() ==> #[trigger] self.root(i) == o.root(i)
    }

    pub proof fn lemma_root_props(&self, i: int)
        requires self.wf(), 0 <= i < self.parent.len()
        ensures 0 <= self.root(i) < self.parent.len(), self.p(self.root(i)) == self.root(i),
                self.root(self.root(i)) == self.root(i),
                self.depth()[self.root(i)] <= self.depth()[i],
        decreases self.depth()[i]
    {
        if self.p(i) != i { self.lemma_root_props(self.p(i)); }
    }

    // redirect x to gp (same root, strictly smaller depth): all roots preserved; old depth is still a witness
    pub proof fn lemma_redirect(old_s: &Self, new_s: &Self, x: int, gp: int)
        requires
            old_s.wf(), 0 <= x < old_s.parent.len(), 0 <= gp < old_s.parent.len(),
            old_s.root(gp) == old_s.root(x), gp != x,
            exists|d: Seq<nat>| old_s.valid_depth(d) && d[gp] < d[x],
            new_s.rank@.len() == old_s.rank@.len(), new_s.parent@.len() == old_s.parent@.len(),
            forall|j: int| 0 <= j < old_s.parent.len() && j != x ==> new_s.parent@[j] == old_s.parent@[j],
            new_s.p(x) == gp,
        ensures new_s.wf(), new_s.same_roots(old_s),
    {
        let d = choose|d: Seq<nat>| old_s.valid_depth(d) && d[gp] < d[x];
        Self::lemma_redirect_depth(old_s, new_s, x, gp, d);
        assert forall|i: int| 0 <= i < new_s.parent.len() implies 0 <= #[trigger] new_s.p(i) < new_s.parent.len() by {
            if i != x { assert(new_s.p(i) == old_s.p(i)); }
        }
        assert(new_s.wf());
        assert forall|i: int| 0 <= i < new_s.parent.len() implies #[trigger] new_s.root(i) == old_s.root(i) by {
            Self::lemma_redirect_i(old_s, new_s, x, gp, i);
        }
    }
    // any witness d with d[gp] < d[x] survives the redirect
    pub proof fn lemma_redirect_depth(old_s: &Self, new_s: &Self, x: int, gp: int, d: Seq<nat>)
        requires
            old_s.valid_depth(d), 0 <= x < old_s.parent.len(), 0 <= gp < old_s.parent.len(), d[gp] < d[x],
            new_s.parent@.len() == old_s.parent@.len(),
            forall|j: int| 0 <= j < old_s.parent.len() && j != x ==> new_s.parent@[j] == old_s.parent@[j],
            new_s.p(x) == gp,
        ensures new_s.valid_depth(d)
    {
        assert forall|i: int| 0 <= i < new_s.parent.len() && new_s.p(i) != i implies d[#[trigger] new_s.p(i)] < d[i] by {
            if i != x { assert(new_s.p(i) == old_s.p(i)); }
        }
    }
    pub proof fn lemma_redirect_i(old_s: &Self, new_s: &Self, x: int, gp: int, i: int)
        requires
            old_s.wf(), new_s.wf(), 0 <= x < old_s.parent.len(), 0 <= gp < old_s.parent.len(),
            old_s.root(gp) == old_s.root(x), gp != x,
            new_s.parent@.len() == old_s.parent@.len(),
            forall|j: int| 0 <= j < old_s.parent.len() && j != x ==> new_s.parent@[j] == old_s.parent@[j],
            new_s.p(x) == gp,
            0 <= i < old_s.parent.len(),
        ensures new_s.root(i) == old_s.root(i)
        decreases old_s.depth()[i]
    {
        if i == x {
            // new root(x) == new root(gp); gp's old path to its root cannot pass through x?  it may — handle via measure on new_s
            Self::lemma_redirect_x(old_s, new_s, x, gp);
            assert(new_s.depth()[gp] < new_s.depth()[x]);
        } else if old_s.p(i) != i {
            assert(new_s.p(i) == old_s.p(i));
            Self::lemma_redirect_i(old_s, new_s, x, gp, old_s.p(i));
        } else {
            assert(new_s.p(i) == i);
        }
    }

    // the case i == x, by induction along gp's path in the NEW structure (whose depth witness exists by new_s.wf())
    pub proof fn lemma_redirect_x(old_s: &Self, new_s: &Self, x: int, gp: int)
        requires
            old_s.wf(), new_s.wf(), 0 <= x < old_s.parent.len(), 0 <= gp < old_s.parent.len(),
            old_s.root(gp) == old_s.root(x), gp != x,
            new_s.parent@.len() == old_s.parent@.len(),
            forall|j: int| 0 <= j < old_s.parent.len() && j != x ==> new_s.parent@[j] == old_s.parent@[j],
            new_s.p(x) == gp,
        ensures new_s.root(x) == old_s.root(x)
    {
        assert(new_s.depth()[gp] < new_s.depth()[x]);
        Self::lemma_path_avoiding(old_s, new_s, x, gp, gp);
    }
    // for every j on the NEW path from gp: new root(j) == old root(j) (new path from gp never returns to x, by new acyclicity)
    pub proof fn lemma_path_avoiding(old_s: &Self, new_s: &Self, x: int, gp: int, j: int)
        requires
            old_s.wf(), new_s.wf(), 0 <= x < old_s.parent.len(), 0 <= gp < old_s.parent.len(), 0 <= j < old_s.parent.len(),
            gp != x, new_s.parent@.len() == old_s.parent@.len(),
            forall|t: int| 0 <= t < old_s.parent.len() && t != x ==> new_s.parent@[t] == old_s.parent@[t],
            new_s.p(x) == gp,
            new_s.depth()[j] < new_s.depth()[x],
        ensures new_s.root(j) == old_s.root(j)
        decreases new_s.depth()[j]
    {
        // j != x since depths differ
        if new_s.p(j) != j {
            assert(new_s.p(j) == old_s.p(j));
            Self::lemma_path_avoiding(old_s, new_s, x, gp, new_s.p(j));
        } else {
            assert(old_s.p(j) == j);
        }
    }

    pub fn len(&self) -> (r: usize) ensures r == self.parent.len() { self.parent.len() }

    unsafe fn find_mut_recursive(&mut self, mut x: K) -> (r: K)
        requires old(self).wf(), x.ix() < old(self).parent.len()
        ensures final(self).wf(), final(self).same_roots(old(self)), final(self).rank@ == old(self).rank@,
                r.ix() == old(self).root(x.ix() as int),
    {
        let ghost x0 = x;
        let ghost s0 = *self;
        let ghost d0 = self.depth();
        let mut parent = *get_unchecked(&self.parent, x.index());
        while parent != x
            invariant
                self.wf(), self.same_roots(&s0), self.rank@ == s0.rank@,
                x.ix() < self.parent.len(), parent == self.parent@[x.ix() as int],
                self.root(x.ix() as int) == s0.root(x0.ix() as int),
                self.valid_depth(d0),
            decreases d0[x.ix() as int]
        {
            proof { K::eq_law(); }
            let grandparent = *get_unchecked(&self.parent, parent.index());
            let ghost before = *self;
            *get_unchecked_mut(&mut self.parent, x.index()) = grandparent;
            proof {
                let xi = x.ix() as int; let pi = parent.ix() as int; let gi = grandparent.ix() as int;
                assert(before.p(xi) == pi);
                assert(before.root(xi) == before.root(pi));
                assert(before.p(pi) == gi);
                assert(before.root(pi) == before.root(gi));
                assert(d0[pi] < d0[xi]);
                assert(d0[gi] <= d0[pi]);
                assert(before.valid_depth(d0) && d0[gi] < d0[xi]);
                Self::lemma_redirect(&before, self, xi, gi);
                Self::lemma_redirect_depth(&before, self, xi, gi, d0);
            }
            x = parent;
            parent = grandparent;
        }
        proof { K::eq_law(); }
        x
    }
}
impl<K: IndexType> UnionFind<K> {
    pub fn try_find_mut(&mut self, x: K) -> (r: Option<K>)
        requires old(self).wf()
        ensures final(self).wf(), final(self).same_roots(old(self)), final(self).rank@ == old(self).rank@,
            r is None <==> x.ix() >= old(self).parent.len(),
            r is Some ==> r.unwrap().ix() == old(self).root(x.ix() as int),
    {
        if x.index() >= self.len() {
            return None;
        }
        Some(unsafe { self.find_mut_recursive(x) })
    }

    pub open spec fn merged(&self, o: &Self, rx: int, ry: int, w: int) -> bool {
        forall|i: int| 0 <= i < o.parent.len() ==>
            #[trigger] self.root(i) == (if o.root(i) == rx || o.root(i) == ry { w } else { o.root(i) })
    }

    // link root c under root w: new witness shifts c's whole tree below w
    pub proof fn lemma_link_wf(old_s: &Self, new_s: &Self, c: int, w: int)
        requires
            old_s.wf(), 0 <= c < old_s.parent.len(), 0 <= w < old_s.parent.len(), c != w,
            old_s.p(c) == c, old_s.p(w) == w,
            new_s.parent@.len() == old_s.parent@.len(), new_s.rank@.len() == old_s.rank@.len(),
            forall|j: int| 0 <= j < old_s.parent.len() && j != c ==> new_s.parent@[j] == old_s.parent@[j],
            new_s.p(c) == w,
        ensures new_s.wf()
    {
        let d = old_s.depth();
        let d2 = Seq::new(d.len(), |j: int| if old_s.root(j) == c { (d[j] + d[w] + 1) as nat } else { d[j] });
        assert forall|i: int| 0 <= i < new_s.parent.len() implies 0 <= #[trigger] new_s.p(i) < new_s.parent.len() by {
            if i != c { assert(new_s.p(i) == old_s.p(i)); }
        }
        assert(new_s.valid_depth(d2)) by {
            assert forall|i: int| 0 <= i < new_s.parent.len() && new_s.p(i) != i implies d2[#[trigger] new_s.p(i)] < d2[i] by {
                if i == c {
                    assert(old_s.root(c) == c);
                    assert(old_s.root(w) == w);
                } else {
                    assert(new_s.p(i) == old_s.p(i));
                    let pi = old_s.p(i);
                    assert(old_s.root(i) == old_s.root(pi));
                    assert(d[pi] < d[i]);
                }
            }
        }
    }

    pub proof fn lemma_link_roots(old_s: &Self, new_s: &Self, c: int, w: int, i: int)
        requires
            old_s.wf(), new_s.wf(), 0 <= c < old_s.parent.len(), 0 <= w < old_s.parent.len(), c != w,
            old_s.p(c) == c, old_s.p(w) == w,
            new_s.parent@.len() == old_s.parent@.len(),
            forall|j: int| 0 <= j < old_s.parent.len() && j != c ==> new_s.parent@[j] == old_s.parent@[j],
            new_s.p(c) == w,
            0 <= i < old_s.parent.len(),
        ensures new_s.root(i) == (if old_s.root(i) == c { w } else { old_s.root(i) })
        decreases old_s.depth()[i]
    {
        if i == c {
            assert(new_s.p(w) == w);
            assert(new_s.root(w) == w);
            assert(new_s.root(c) == new_s.root(w));
        } else if old_s.p(i) != i {
            assert(new_s.p(i) == old_s.p(i));
            Self::lemma_link_roots(old_s, new_s, c, w, old_s.p(i));
        } else {
            assert(new_s.p(i) == i);
        }
    }

    pub fn try_union(&mut self, x: K, y: K) -> (res: Result<bool, K>)
        requires old(self).wf()
        ensures
            final(self).wf(), final(self).parent.len() == old(self).parent.len(),
            x.ix() == y.ix() ==> res == Ok::<bool, K>(false) && final(self).same_roots(old(self)),
            x.ix() != y.ix() && x.ix() >= old(self).parent.len() ==> res is Err && res->Err_0.ix() == x.ix() && final(self).same_roots(old(self)),
            x.ix() != y.ix() && x.ix() < old(self).parent.len() && y.ix() >= old(self).parent.len() ==> res is Err && res->Err_0.ix() == y.ix() && final(self).same_roots(old(self)),
            x.ix() != y.ix() && x.ix() < old(self).parent.len() && y.ix() < old(self).parent.len() ==> {
                let rx = old(self).root(x.ix() as int);
                let ry = old(self).root(y.ix() as int);
                &&& res == Ok::<bool, K>(rx != ry)
                &&& rx == ry ==> final(self).same_roots(old(self))
                &&& rx != ry ==> (final(self).merged(old(self), rx, ry, rx) || final(self).merged(old(self), rx, ry, ry))
            },
    {
        proof { K::eq_law(); }
        if x == y {
            return Ok(false);
        }
        let ghost s0 = *self;
        let xrep = self.try_find_mut(x).ok_or(x)?;
        let yrep = self.try_find_mut(y).ok_or(y)?;
        let ghost s2 = *self;

        if xrep == yrep {
            return Ok(false);
        }

        let xrepu = xrep.index();
        let yrepu = yrep.index();
        proof {
            s0.lemma_root_props(x.ix() as int);
            s0.lemma_root_props(y.ix() as int);
            s2.lemma_root_props(x.ix() as int);
            s2.lemma_root_props(y.ix() as int);
        }
        let xrank = self.rank[xrepu];
        let yrank = self.rank[yrepu];

        // The rank corresponds roughly to the depth of the treeset, so put the
        // smaller set below the larger
        match xrank.cmp(&yrank) {
            Ordering::Less => self.parent[xrepu] = yrep,
            Ordering::Greater => self.parent[yrepu] = xrep,
            Ordering::Equal => {
                self.parent[yrepu] = xrep;
                assume(self.rank[xrepu as int] < 255); // ASSUMPTION (listed): rank overflow needs >= 2^255 elements
                self.rank[xrepu] += 1;
            }
        }
        proof {
            let rx = xrepu as int; let ry = yrepu as int;
            // read the direction off the resulting structure, not off the rank policy
            let (c, w) = if self.p(rx) == ry { (rx, ry) } else { (ry, rx) };
            Self::lemma_link_wf(&s2, self, c, w);
            assert forall|i: int| 0 <= i < s0.parent.len() implies
                #[trigger] self.root(i) == (if s0.root(i) == rx || s0.root(i) == ry { w } else { s0.root(i) }) by {
                Self::lemma_link_roots(&s2, self, c, w, i);
                assert(s2.root(i) == s0.root(i));
            }
            assert(self.merged(&s0, rx, ry, w));
        }
        Ok(true)
    }
}

}
fn main() {}
