use vstd::prelude::*;
use vstd::std_specs::iter::*;
verus! {
pub trait GraphBase { type NodeId: Copy + PartialEq; }
pub trait IntoNeighbors: GraphBase + Copy {
    type Neighbors: Iterator<Item = Self::NodeId>;
    spec fn succ(self, a: Self::NodeId) -> Seq<Self::NodeId>;
    fn neighbors(self, a: Self::NodeId) -> (r: Self::Neighbors)
        ensures r.obeys_prophetic_iter_laws(), r.decrease() is Some, r.remaining() == self.succ(a);
}

// a tiny adjacency-list graph and its slice-walking neighbour iterator
pub struct G { pub adj: Vec<Vec<u32>> }
pub struct Nb<'a> { pub row: &'a [u32], pub pos: usize }

impl<'a> Iterator for Nb<'a> {
    type Item = u32;
    fn next(&mut self) -> (r: Option<u32>) {
        if self.pos < self.row.len() { let x = self.row[self.pos]; self.pos = self.pos + 1; Some(x) } else { None }
    }
}
impl<'a> IteratorSpecImpl for Nb<'a> {
    open spec fn obeys_prophetic_iter_laws(&self) -> bool { true }
    open spec fn remaining(&self) -> Seq<u32> { if self.pos <= self.row@.len() { self.row@.skip(self.pos as int) } else { Seq::empty() } }
    open spec fn decrease(&self) -> Option<nat> { Some(if self.pos <= self.row@.len() { (self.row@.len() - self.pos) as nat } else { 0 }) }
    open spec fn will_return_none(&self) -> bool { true }
    open spec fn peek(&self, i: int) -> Option<u32> { None }
}

impl<'a> GraphBase for &'a G { type NodeId = u32; }
impl<'a> IntoNeighbors for &'a G {
    type Neighbors = Nb<'a>;
    open spec fn succ(self, a: u32) -> Seq<u32> { if (a as int) < self.adj@.len() { self.adj@[a as int]@ } else { Seq::empty() } }
    fn neighbors(self, a: u32) -> (r: Nb<'a>) {
        match self.adj.get(a as usize) {
            Some(row) => Nb { row: row.as_slice(), pos: 0 },
            None => Nb { row: &[], pos: 0 },
        }
    }
}

// generic client: first neighbour, for any graph type satisfying the trait contract
fn first<Gr: IntoNeighbors>(g: Gr, a: Gr::NodeId) -> (r: Option<Gr::NodeId>)
    ensures r is None <==> g.succ(a).len() == 0, r is Some ==> r.unwrap() == g.succ(a)[0]
{
    let mut __it = g.neighbors(a);
    __it.next()
}
fn client(g: &G) -> (r: Option<u32>)
    requires g.adj@.len() > 0
    ensures r is None <==> g.adj@[0]@.len() == 0, r is Some ==> r.unwrap() == g.adj@[0]@[0]
{
    first(g, 0u32)
}
}
fn main() {}
