use vstd::prelude::*;
verus! {
pub struct Edge { pub next: [u32; 2], pub node: [u32; 2] }
struct W<'a> { edges: &'a mut [Edge], next: u32, k: usize }

fn mk<'a>(edges: &'a mut [Edge], next: u32, k: usize) -> (r: W<'a>)
    requires k < 2
    ensures r.edges@ == old(edges)@, final(r.edges)@ == final(edges)@, r.next == next, r.k == k,
{
    W { edges, next, k }
}

impl<'a> W<'a> {
    fn next_edge(&mut self) -> (r: Option<&mut Edge>)
        requires old(self).k < 2
        ensures
            final(self).k == old(self).k,
            final(final(self).edges)@ == final(old(self).edges)@,
            match r {
                None => old(self).next as int >= old(self).edges@.len() && final(self).next == old(self).next && final(self).edges@ == old(self).edges@,
                Some(e) => {
                    let i = old(self).next as int;
                    &&& i < old(self).edges@.len()
                    &&& *e == old(self).edges@[i]
                    &&& final(self).next == old(self).edges@[i].next[old(self).k as int]
                    &&& final(self).edges@ == old(self).edges@.update(i, *final(e))
                }
            }
    {
        let k = self.k;
        match self.edges.get_mut(self.next as usize) {
            None => None,
            Some(edge) => {
                self.next = edge.next[k];
                Some(edge)
            }
        }
    }
}


pub struct G { pub edges: Vec<Edge> }
impl G {
    fn test(&mut self, fst: u32, e: u32, repl: u32) 
        requires old(self).edges.len() == 3
        ensures final(self).edges.len() == 3,
            forall|j: int| 0 <= j < 3 ==> final(self).edges@[j].node == old(self).edges@[j].node
    {
        let mut w = mk(&mut self.edges, fst, 0);
        let r = w.next_edge();
        match r {
            Some(cur) => { if cur.next[0] == e { cur.next[0] = repl; } }
            None => {}
        }
    }
}
}
fn main() {}
