use vstd::prelude::*;
use std::collections::BTreeMap;
verus! {
pub struct OrderMap {
    pub pos_to_node: BTreeMap<usize, u32>,
    pub node_to_pos: Vec<usize>,
}
impl OrderMap {
    pub fn remove_node(&mut self, idx: usize) 
    {
        assert(idx < self.node_to_pos.len()) by { admit(); }
        let pos = self.node_to_pos[idx];
        self.node_to_pos[idx] = 0;
        self.pos_to_node.remove(&pos);
    }
    pub fn set_position(&mut self, idx: usize, id: u32, pos: usize) 
        requires idx < old(self).node_to_pos.len()
    {
        self.pos_to_node.insert(pos, id);
        self.node_to_pos[idx] = pos;
    }
    pub fn at(&self, pos: usize) -> Option<u32> {
        self.pos_to_node.get(&pos).copied()
    }
}
}
fn main() {}
