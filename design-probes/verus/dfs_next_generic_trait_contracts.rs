use vstd::prelude::*;
use vstd::std_specs::iter::*;
verus! {
pub trait GraphBase { type NodeId: Copy + PartialEq; }
pub trait IntoNeighbors: GraphBase + Copy {
    type Neighbors: Iterator<Item = Self::NodeId>;
    spec fn succ(self, a: Self::NodeId) -> Seq<Self::NodeId>;
    fn neighbors(self, a: Self::NodeId) -> (r: Self::Neighbors)
        ensures r.obeys_prophetic_iter_laws(), r.decrease() is Some, r.remaining() == self.succ(a);
}
pub trait VisitMap<N> {
    spec fn set(&self) -> Set<N>;
    fn visit(&mut self, a: N) -> (r: bool)
        ensures r == !old(self).set().contains(a), final(self).set() == old(self).set().insert(a);
    fn is_visited(&self, a: &N) -> (r: bool)
        ensures r == self.set().contains(*a);
}
pub struct Dfs<N, VM> {
    pub stack: Vec<N>,
    pub discovered: VM,
}
impl<N, VM> Dfs<N, VM>
where
    N: Copy + PartialEq,
    VM: VisitMap<N>,
{
    // every successor of a discovered node is discovered or waiting on the stack
    pub open spec fn closed<G: IntoNeighbors<NodeId = N>>(&self, g: G) -> bool {
        forall|u: N, i: int| self.discovered.set().contains(u) && 0 <= i < g.succ(u).len() ==>
            self.discovered.set().contains(#[trigger] g.succ(u)[i]) || self.stack@.contains(g.succ(u)[i])
    }

    pub fn next<G>(&mut self, graph: G) -> (r: Option<N>)
    where
        G: IntoNeighbors<NodeId = N>,
        requires old(self).closed(graph)
        ensures
            final(self).closed(graph),
            old(self).discovered.set().subset_of(final(self).discovered.set()),
            match r {
                Some(x) => !old(self).discovered.set().contains(x) && final(self).discovered.set() == old(self).discovered.set().insert(x)
                            && old(self).stack@.contains(x),
                None => final(self).stack@.len() == 0 && final(self).discovered.set() == old(self).discovered.set(),
            }
    {
        let ghost mut pre: Seq<N> = self.stack@;
        while let Some(node) = self.stack.pop()
            invariant
                pre == self.stack@,
                self.closed(graph),
                self.discovered.set() == old(self).discovered.set(),
                forall|i: int| 0 <= i < self.stack@.len() ==> old(self).stack@.contains(#[trigger] self.stack@[i]),
            ensures self.stack@.len() == 0
            decreases self.stack@.len()
        {
            proof { assert(pre == self.stack@.push(node)); }
            let ghost st0 = self.stack@;   // stack after the pop
            let ghost disc0 = self.discovered.set();
            // before the pop the stack was st0.push(node) and closed() held for (disc0, st0.push(node))
            if self.discovered.visit(node) {
                let ghost disc1 = self.discovered.set();
                let mut __it = graph.neighbors(node);
                let ghost all = __it.remaining();
                let ghost mut done: int = 0;
                loop
                    invariant
                        __it.obeys_prophetic_iter_laws(), __it.decrease() is Some,
                        0 <= done <= all.len(), __it.remaining() == all.skip(done),
                        all == graph.succ(node),
                        self.discovered.set() == disc1,
                        forall|i: int| 0 <= i < st0.len() ==> self.stack@.contains(#[trigger] st0[i]),
                        forall|i: int| 0 <= i < done ==> disc1.contains(#[trigger] all[i]) || self.stack@.contains(all[i]),
                    ensures done == all.len(),
                    decreases __it.decrease()->Some_0
                {
                    match __it.next() {
                        None => break,
                        Some(succ) => {
                            let ghost stk = self.stack@;
                            if !self.discovered.is_visited(&succ) {
                                self.stack.push(succ);
                            }
                            proof {
                                assert(succ == all[done]);
                                assert forall|i: int| 0 <= i < st0.len() implies self.stack@.contains(#[trigger] st0[i]) by {
                                    let j = choose|j: int| 0 <= j < stk.len() && stk[j] == st0[i];
                                    assert(self.stack@[j] == st0[i]);
                                }
                                assert forall|i: int| 0 <= i < done + 1 implies disc1.contains(#[trigger] all[i]) || self.stack@.contains(all[i]) by {
                                    if i < done {
                                        if !disc1.contains(all[i]) {
                                            let j = choose|j: int| 0 <= j < stk.len() && stk[j] == all[i];
                                            assert(self.stack@[j] == all[i]);
                                        }
                                    } else {
                                        if !disc1.contains(succ) { assert(self.stack@[self.stack@.len() - 1] == succ); }
                                    }
                                }
                                assert(all.skip(done).skip(1) =~= all.skip(done + 1));
                                done = done + 1;
                            }
                        }
                    }
                }
                proof {
                    // closedness re-established
                    assert forall|u: N, i: int| self.discovered.set().contains(u) && 0 <= i < graph.succ(u).len() implies
                        self.discovered.set().contains(#[trigger] graph.succ(u)[i]) || self.stack@.contains(graph.succ(u)[i]) by {
                        let v = graph.succ(u)[i];
                        if u == node {
                            assert(v == all[i]);
                        } else {
                            // u was discovered before: v in disc0 or on the pre-pop stack
                            assert(disc0.contains(u));
                            assert(disc0.contains(v) || pre.contains(v));
                            if !disc0.contains(v) {
                                let j = choose|j: int| 0 <= j < pre.len() && pre[j] == v;
                                if j == pre.len() - 1 { assert(v == node); }
                                else { assert(st0[j] == v); }
                            }
                        }
                    }
                }
                return Some(node);
            }
            proof {
                assert(disc0.contains(node));
                assert(self.discovered.set() =~= disc0);
                assert forall|u: N, i: int| self.discovered.set().contains(u) && 0 <= i < graph.succ(u).len() implies
                    self.discovered.set().contains(#[trigger] graph.succ(u)[i]) || self.stack@.contains(graph.succ(u)[i]) by {
                    let v = graph.succ(u)[i];
                    assert(disc0.contains(v) || pre.contains(v));
                    if !disc0.contains(v) {
                        let j = choose|j: int| 0 <= j < pre.len() && pre[j] == v;
                        if j == pre.len() - 1 { assert(v == node); } else { assert(st0[j] == v); }
                    }
                }
                pre = self.stack@;
            }
        }
        None
    }
}
}
fn main() {}
