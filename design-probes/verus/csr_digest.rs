use vstd::prelude::*;
use core::marker::PhantomData;
use core::cmp::Ordering;
use core::ops::Range;
verus! {
global size_of usize == 8;

pub unsafe trait IndexType: Copy + Ord {
    spec fn ix(&self) -> usize;
    spec fn spec_max() -> usize;
    fn new(x: usize) -> (r: Self)
        ensures x <= Self::spec_max() ==> r.ix() == x;
    fn index(&self) -> (r: usize)
        ensures r == self.ix(), r <= Self::spec_max();
    fn max() -> (r: Self)
        ensures r.ix() == Self::spec_max();
}
pub trait EdgeType {
    spec fn spec_is_directed() -> bool;
    fn is_directed() -> (r: bool) ensures r == Self::spec_is_directed();
}
pub enum CsrError { IndicesOutBounds(usize, usize) }
pub type NodeIndex<Ix> = Ix;
const BINARY_SEARCH_CUTOFF: usize = 32;

pub struct Csr<N, E, Ty, Ix> {
    pub column: Vec<NodeIndex<Ix>>,
    pub edges: Vec<E>,
    pub row: Vec<usize>,
    pub node_weights: Vec<N>,
    pub edge_count: usize,
    pub ty: PhantomData<Ty>,
}

impl<N, E, Ty, Ix> Csr<N, E, Ty, Ix>
where
    Ty: EdgeType,
    Ix: IndexType,
{
    pub fn node_count(&self) -> usize {
        self.row.len() - 1
    }
    pub fn is_directed(&self) -> bool {
        Ty::is_directed()
    }
    pub fn add_node(&mut self, weight: N) -> NodeIndex<Ix> {
        let i = self.row.len() - 1;
        self.row.insert(i, self.column.len());
        self.node_weights.insert(i, weight);
        Ix::new(i)
    }
    fn add_edge_(
        &mut self,
        a: NodeIndex<Ix>,
        b: NodeIndex<Ix>,
        weight: E,
    ) -> Result<bool, CsrError> {
        if !(a.index() < self.node_count() && b.index() < self.node_count()) {
            return Err(CsrError::IndicesOutBounds(a.index(), b.index()));
        }
        let pos = match self.find_edge_pos(a, b) {
            Ok(_) => return Ok(false), /* already exists */
            Err(i) => i,
        };
        self.column.insert(pos, b);
        self.edges.insert(pos, weight);
        // update row vector
        for r in &mut self.row[a.index() + 1..] {
            *r += 1;
        }
        Ok(true)
    }

    fn find_edge_pos(&self, a: NodeIndex<Ix>, b: NodeIndex<Ix>) -> Result<usize, usize> {
        let (index, neighbors) = self.neighbors_of(a);
        if neighbors.len() < BINARY_SEARCH_CUTOFF {
            for (i, elt) in neighbors.iter().enumerate() {
                match elt.cmp(&b) {
                    Ordering::Equal => return Ok(i + index),
                    Ordering::Greater => return Err(i + index),
                    Ordering::Less => {}
                }
            }
            Err(neighbors.len() + index)
        } else {
            match neighbors.binary_search(&b) {
                Ok(i) => Ok(i + index),
                Err(i) => Err(i + index),
            }
        }
    }
    fn neighbors_range(&self, a: NodeIndex<Ix>) -> Range<usize> {
        let index = self.row[a.index()];
        let end = self
            .row
            .get(a.index() + 1)
            .cloned()
            .unwrap_or(self.column.len());
        index..end
    }

    fn neighbors_of(&self, a: NodeIndex<Ix>) -> (usize, &[Ix]) {
        let r = self.neighbors_range(a);
        (r.start, &self.column[r])
    }
    pub fn clear_edges(&mut self) {
        self.column.clear();
        self.edges.clear();
        for r in &mut self.row {
            *r = 0;
        }
        if !self.is_directed() {
            self.edge_count = 0;
        }
    }
}

}
fn main() {}
