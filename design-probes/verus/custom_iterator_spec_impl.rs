use vstd::prelude::*;
use vstd::std_specs::iter::*;
verus! {
pub struct Countdown { pub n: u32 }
impl Iterator for Countdown {
    type Item = u32;
    fn next(&mut self) -> (r: Option<u32>) 
    {
        if self.n == 0 { None } else { self.n = self.n - 1; Some(self.n) }
    }
}
impl IteratorSpecImpl for Countdown {
    open spec fn obeys_prophetic_iter_laws(&self) -> bool { true }
    open spec fn remaining(&self) -> Seq<u32> { Seq::new(self.n as nat, |i: int| (self.n - 1 - i) as u32) }
    open spec fn decrease(&self) -> Option<nat> { Some(self.n as nat) }
    open spec fn will_return_none(&self) -> bool { true }
    open spec fn peek(&self, i: int) -> Option<u32> { None }
}
}
fn main() {}
