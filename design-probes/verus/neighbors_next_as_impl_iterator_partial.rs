use vstd::prelude::*;
use vstd::std_specs::cmp::*;
use core::marker::PhantomData;
verus! {
global size_of usize == 8;

pub unsafe trait IndexType: Copy + PartialEq {
    spec fn ix(&self) -> usize;
    spec fn spec_max() -> usize;
    fn new(x: usize) -> (r: Self)
        ensures x <= Self::spec_max() ==> r.ix() == x;
    fn index(&self) -> (r: usize)
        ensures r == self.ix(), r <= Self::spec_max();
    fn max() -> (r: Self)
        ensures r.ix() == Self::spec_max();
}

pub trait EdgeType {
    spec fn spec_is_directed() -> bool;
    fn is_directed() -> (r: bool) ensures r == Self::spec_is_directed();
}

#[derive(Copy, Clone, PartialEq, Eq)]
pub struct NodeIndex<Ix>(pub Ix);
#[derive(Copy, Clone, PartialEq, Eq)]
pub struct EdgeIndex<Ix>(pub Ix);

impl<Ix: IndexType> PartialEqSpecImpl for NodeIndex<Ix> {
    open spec fn obeys_eq_spec() -> bool { true }
    open spec fn eq_spec(&self, other: &Self) -> bool { self.0.ix() == other.0.ix() }
}
impl<Ix: IndexType> PartialEqSpecImpl for EdgeIndex<Ix> {
    open spec fn obeys_eq_spec() -> bool { true }
    open spec fn eq_spec(&self, other: &Self) -> bool { self.0.ix() == other.0.ix() }
}

impl<Ix: IndexType> NodeIndex<Ix> {
    #[inline]
    pub fn new(x: usize) -> (r: Self) ensures x <= Ix::spec_max() ==> r.0.ix() == x
    {
        NodeIndex(IndexType::new(x))
    }
    #[inline]
    pub fn index(self) -> (r: usize) ensures r == self.0.ix(), r <= Ix::spec_max()
    {
        self.0.index()
    }
    #[inline]
    pub fn end() -> (r: Self) ensures r.0.ix() == Ix::spec_max()
    {
        NodeIndex(IndexType::max())
    }
}
impl<Ix: IndexType> EdgeIndex<Ix> {
    #[inline]
    pub fn new(x: usize) -> (r: Self) ensures x <= Ix::spec_max() ==> r.0.ix() == x
    {
        EdgeIndex(IndexType::new(x))
    }
    #[inline]
    pub fn index(self) -> (r: usize) ensures r == self.0.ix(), r <= Ix::spec_max()
    {
        self.0.index()
    }
    #[inline]
    pub fn end() -> (r: Self) ensures r.0.ix() == Ix::spec_max()
    {
        EdgeIndex(IndexType::max())
    }
}

pub struct Node<N, Ix> {
    pub weight: N,
    pub next: [EdgeIndex<Ix>; 2],
}
pub struct Edge<E, Ix> {
    pub weight: E,
    pub next: [EdgeIndex<Ix>; 2],
    pub node: [NodeIndex<Ix>; 2],
}
pub enum GraphError { NodeIxLimit, EdgeIxLimit, NodeMissed(usize), NodeOutBounds }

pub struct Graph<N, E, Ty, Ix> {
    pub nodes: Vec<Node<N, Ix>>,
    pub edges: Vec<Edge<E, Ix>>,
    pub ty: PhantomData<Ty>,
}
enum Pair<T> { Both(T, T), One(T), None }

#[verifier::external_body]
fn index_twice<T>(slc: &mut [T], a: usize, b: usize) -> (r: Pair<&mut T>)
    ensures 
        match r {
            Pair::None => (a >= old(slc)@.len() || b >= old(slc)@.len()) && final(slc)@ == old(slc)@,
            Pair::One(x) => a == b && a < old(slc)@.len() && *x == old(slc)@[a as int]
                 && final(slc)@ == old(slc)@.update(a as int, *final(x)),
            Pair::Both(x, y) => a != b && a < old(slc)@.len() && b < old(slc)@.len() 
                 && *x == old(slc)@[a as int] && *y == old(slc)@[b as int]
                 && final(slc)@ == old(slc)@.update(a as int, *final(x)).update(b as int, *final(y)),
        }
{ unimplemented!() }

impl<N, E, Ty, Ix> Graph<N, E, Ty, Ix>
where
    Ty: EdgeType,
    Ix: IndexType,
{
    pub fn try_add_node(&mut self, weight: N) -> (res: Result<NodeIndex<Ix>, GraphError>)
        requires old(self).nodes.len() <= Ix::spec_max(), old(self).nodes.len() < usize::MAX,
        ensures
            match res {
                Ok(i) => i.0.ix() == old(self).nodes.len() && final(self).nodes@.len() == old(self).nodes@.len() + 1
                      && final(self).nodes@.len() <= Ix::spec_max()
                      && final(self).edges@ == old(self).edges@,
                Err(_) => final(self).nodes@ == old(self).nodes@ && final(self).edges@ == old(self).edges@,
            }
    {
        proof { assert(!0usize == 0xffff_ffff_ffff_ffffusize) by (bit_vector); }
        let node = Node {
            weight,
            next: [EdgeIndex::end(), EdgeIndex::end()],
        };
        let node_idx = NodeIndex::new(self.nodes.len());
        // check for max capacity, except if we use usize
        if <Ix as IndexType>::max().index() == !0 || NodeIndex::end() != node_idx {
            self.nodes.push(node);
            Ok(node_idx)
        } else {
            Err(GraphError::NodeIxLimit)
        }
    }

    pub fn try_add_edge(
        &mut self,
        a: NodeIndex<Ix>,
        b: NodeIndex<Ix>,
        weight: E,
    ) -> (res: Result<EdgeIndex<Ix>, GraphError>) 
        requires old(self).edges.len() <= Ix::spec_max(),
        ensures
            res is Err ==> final(self).nodes@ == old(self).nodes@ && final(self).edges@ == old(self).edges@,
            res is Ok ==> final(self).edges@.len() == old(self).edges@.len() + 1 
                  && a.0.ix() < old(self).nodes@.len() && b.0.ix() < old(self).nodes@.len()
                  && final(self).edges@.last().node[0] == a,
    {
        let edge_idx = EdgeIndex::new(self.edges.len());
        if !(<Ix as IndexType>::max().index() == !0 || EdgeIndex::end() != edge_idx) {
            return Err(GraphError::EdgeIxLimit);
        }

        let mut edge = Edge {
            weight,
            node: [a, b],
            next: [EdgeIndex::end(); 2],
        };
        match index_twice(&mut self.nodes, a.index(), b.index()) {
            Pair::None => return Err(GraphError::NodeOutBounds),
            Pair::One(an) => {
                edge.next = an.next;
                an.next[0] = edge_idx;
                an.next[1] = edge_idx;
            }
            Pair::Both(an, bn) => {
                // a and b are different indices
                edge.next = [an.next[0], bn.next[1]];
                an.next[0] = edge_idx;
                bn.next[1] = edge_idx;
            }
        }
        self.edges.push(edge);
        Ok(edge_idx)
    }
}

pub open spec fn is_list<E, Ix: IndexType>(edges: Seq<Edge<E, Ix>>, head: EdgeIndex<Ix>, k: int, s: Seq<int>) -> bool
    decreases s.len()
{
    if s.len() == 0 {
        head.0.ix() >= edges.len()
    } else {
        &&& head.0.ix() == s[0]
        &&& 0 <= s[0] < edges.len()
        &&& is_list(edges, edges[s[0]].next[k], k, s.drop_first())
    }
}

impl<N, E, Ty, Ix> Graph<N, E, Ty, Ix>
where
    Ty: EdgeType,
    Ix: IndexType,
{
    fn find_edge_directed_from_node(
        &self,
        node: &Node<N, Ix>,
        b: NodeIndex<Ix>,
    ) -> (r: Option<EdgeIndex<Ix>>)
        requires
            exists|s: Seq<int>| is_list(self.edges@, node.next[0], 0, s),
        ensures
            forall|s: Seq<int>| is_list(self.edges@, node.next[0], 0, s) ==> 
                match r {
                    Some(e) => exists|i: int| 0 <= i < s.len() && s[i] == e.0.ix() && self.edges@[s[i]].node[1].0.ix() == b.0.ix()
                        && forall|j: int| 0 <= j < i ==> self.edges@[s[j]].node[1].0.ix() != b.0.ix(),
                    None => forall|j: int| 0 <= j < s.len() ==> self.edges@[s[j]].node[1].0.ix() != b.0.ix(),
                }
    {
        let ghost s0: Seq<int> = choose|s: Seq<int>| is_list(self.edges@, node.next[0], 0, s);
        let ghost mut rest: Seq<int> = s0;
        let ghost mut done: int = 0;
        let mut edix = node.next[0];
        while let Some(edge) = self.edges.get(edix.index())
            invariant
                0 <= done <= s0.len(),
                is_list(self.edges@, node.next[0], 0, s0),
                rest == s0.subrange(done, s0.len() as int),
                is_list(self.edges@, edix, 0, rest),
                forall|j: int| 0 <= j < done ==> self.edges@[s0[j]].node[1].0.ix() != b.0.ix(),
            ensures edix.0.ix() >= self.edges@.len(),
            decreases rest.len()
        {
            proof {
                assert(rest.len() > 0);
                assert(rest[0] == edix.0.ix());
            }
            if edge.node[1] == b {
                proof { lemma_list_unique(self.edges@, node.next[0], 0, s0);
                    assert(s0[done] == rest[0]);
                    assert(0 <= s0[done] < self.edges@.len());
                }
                return Some(edix);
            }
            edix = edge.next[0];
            proof {
                assert(s0[done] == rest[0]);
                rest = rest.drop_first();
                done = done + 1;
                assert(rest =~= s0.subrange(done, s0.len() as int));
            }
        }
        proof { lemma_list_unique(self.edges@, node.next[0], 0, s0); assert(edix.0.ix() >= self.edges@.len()); assert(rest.len() == 0); assert(done == s0.len()); }
        None
    }
}

pub proof fn lemma_list_unique<E, Ix: IndexType>(edges: Seq<Edge<E, Ix>>, head: EdgeIndex<Ix>, k: int, s: Seq<int>)
    requires is_list(edges, head, k, s)
    ensures forall|t: Seq<int>| is_list(edges, head, k, t) ==> t == s
    decreases s.len()
{
    assert forall|t: Seq<int>| is_list(edges, head, k, t) implies t == s by {
        lemma_list_unique2(edges, head, k, s, t);
    }
}
pub proof fn lemma_list_unique2<E, Ix: IndexType>(edges: Seq<Edge<E, Ix>>, head: EdgeIndex<Ix>, k: int, s: Seq<int>, t: Seq<int>)
    requires is_list(edges, head, k, s), is_list(edges, head, k, t)
    ensures t == s
    decreases s.len()
{
    if s.len() == 0 {
        if t.len() > 0 { assert(false); }
        assert(t =~= s);
    } else {
        if t.len() == 0 { assert(false); }
        lemma_list_unique2(edges, edges[s[0]].next[k], k, s.drop_first(), t.drop_first());
        assert(t =~= seq![t[0]] + t.drop_first());
        assert(s =~= seq![s[0]] + s.drop_first());
    }
}

#[derive(Copy, Clone)]
pub enum Direction { Outgoing = 0, Incoming = 1 }
impl Direction {
    pub open spec fn k(self) -> int { match self { Direction::Outgoing => 0, Direction::Incoming => 1 } }
    pub fn index(self) -> (r: usize) ensures r == self.k()
    { match self { Direction::Outgoing => 0, Direction::Incoming => 1 } }
}
const DIRECTIONS: [Direction; 2] = [Direction::Outgoing, Direction::Incoming];

struct EdgesWalkerMut<'a, E: 'a, Ix: IndexType> {
    edges: &'a mut [Edge<E, Ix>],
    next: EdgeIndex<Ix>,
    dir: Direction,
}

fn edges_walker_mut<E, Ix>(
    edges: &mut [Edge<E, Ix>],
    next: EdgeIndex<Ix>,
    dir: Direction,
) -> (r: EdgesWalkerMut<E, Ix>)
where
    Ix: IndexType,
    ensures r.edges@ == old(edges)@, final(r.edges)@ == final(edges)@, r.next == next, r.dir == dir,
{
    EdgesWalkerMut { edges, next, dir }
}

impl<E, Ix> EdgesWalkerMut<'_, E, Ix>
where
    Ix: IndexType,
{
    fn next_edge(&mut self) -> (r: Option<&mut Edge<E, Ix>>)
        ensures
            final(self).dir == old(self).dir,
            final(final(self).edges)@ == final(old(self).edges)@,
            match r {
                None => old(self).next.0.ix() >= old(self).edges@.len() && final(self).next == old(self).next && final(self).edges@ == old(self).edges@,
                Some(e) => {
                    let i = old(self).next.0.ix() as int;
                    &&& i < old(self).edges@.len()
                    &&& *e == old(self).edges@[i]
                    &&& final(self).next == old(self).edges@[i].next[old(self).dir.k()]
                    &&& final(self).edges@ == old(self).edges@.update(i, *final(e))
                }
            }
    {
        self.next().map(|t: (EdgeIndex<Ix>, &mut Edge<E, Ix>)| -> (r: &mut Edge<E, Ix>) ensures *r == *old(t.1), *final(r) == *final(t.1) { t.1 })
    }

    fn next(&mut self) -> (r: Option<(EdgeIndex<Ix>, &mut Edge<E, Ix>)>)
        ensures
            final(self).dir == old(self).dir,
            final(final(self).edges)@ == final(old(self).edges)@,
            match r {
                None => old(self).next.0.ix() >= old(self).edges@.len() && final(self).next == old(self).next && final(self).edges@ == old(self).edges@,
                Some((ix, e)) => {
                    let i = old(self).next.0.ix() as int;
                    &&& ix == old(self).next
                    &&& i < old(self).edges@.len()
                    &&& *e == old(self).edges@[i]
                    &&& final(self).next == old(self).edges@[i].next[old(self).dir.k()]
                    &&& final(self).edges@ == old(self).edges@.update(i, *final(e))
                }
            }
    {
        let this_index = self.next;
        let k = self.dir.index();
        match self.edges.get_mut(self.next.index()) {
            None => None,
            Some(edge) => {
                self.next = edge.next[k];
                Some((this_index, edge))
            }
        }
    }
}

// chain: indices visited following next[k] from head until the pointer leaves the array
pub open spec fn chain<E, Ix: IndexType>(edges: Seq<Edge<E, Ix>>, head: EdgeIndex<Ix>, k: int, s: Seq<int>) -> bool
    decreases s.len()
{
    if s.len() == 0 {
        head.0.ix() >= edges.len()
    } else {
        &&& head.0.ix() == s[0]
        &&& 0 <= s[0] < edges.len()
        &&& chain(edges, edges[s[0]].next[k], k, s.drop_first())
    }
}
// index in s of the first element whose next[k] is e, or s.len()
pub open spec fn first_link<E, Ix: IndexType>(edges: Seq<Edge<E, Ix>>, k: int, s: Seq<int>, e: EdgeIndex<Ix>) -> int
    decreases s.len()
{
    if s.len() == 0 { 0 }
    else if edges[s[0]].next[k].0.ix() == e.0.ix() { 0 }
    else { 1 + first_link(edges, k, s.drop_first(), e) }
}
pub open spec fn same_but_next<E, Ix: IndexType>(a: Edge<E, Ix>, b: Edge<E, Ix>, k: int) -> bool {
    a.weight == b.weight && a.node == b.node && a.next[1 - k] == b.next[1 - k]
}

impl<N, E, Ty, Ix> Graph<N, E, Ty, Ix>
where
    Ty: EdgeType,
    Ix: IndexType,
{
    // one direction of change_edge_links, as a stand-alone copy of the loop body for the probe
    fn relink_dir(&mut self, a: NodeIndex<Ix>, e: EdgeIndex<Ix>, repl: EdgeIndex<Ix>, d: Direction, Ghost(s): Ghost<Seq<int>>)
        requires
            a.0.ix() < old(self).nodes.len(),
            chain(old(self).edges@, old(self).nodes@[a.0.ix() as int].next[d.k()], d.k(), s),
            forall|i: int, j: int| 0 <= i < j < s.len() ==> s[i] != s[j],
        ensures
            final(self).nodes@.len() == old(self).nodes@.len(),
            final(self).edges@.len() == old(self).edges@.len(),
            forall|j: int| 0 <= j < old(self).nodes@.len() && j != a.0.ix() ==> final(self).nodes@[j] == old(self).nodes@[j],
            old(self).nodes@[a.0.ix() as int].next[d.k()].0.ix() == e.0.ix() ==> {
                &&& final(self).nodes@[a.0.ix() as int].next[d.k()] == repl
                &&& final(self).edges@ == old(self).edges@
            },
            old(self).nodes@[a.0.ix() as int].next[d.k()].0.ix() != e.0.ix() ==> {
                let p = first_link(old(self).edges@, d.k(), s, e);
                &&& final(self).nodes@ == old(self).nodes@
                &&& forall|j: int| 0 <= j < old(self).edges@.len() && !(p < s.len() && j == s[p]) ==> final(self).edges@[j] == old(self).edges@[j]
                &&& p < s.len() ==> final(self).edges@[s[p]].next[d.k()] == repl && same_but_next(final(self).edges@[s[p]], old(self).edges@[s[p]], d.k())
            },
    {
        let k = d.index();

        let node = match self.nodes.get_mut(a.index()) {
            Some(r) => r,
            None => {
                return;
            }
        };
        let fst = node.next[k];
        if fst == e {
            node.next[k] = repl;
        } else {
            let ghost edges0 = self.edges@;
            let ghost mut done: int = 0;
            let mut edges = edges_walker_mut(&mut self.edges, fst, d);
            let ghost fin = final(edges.edges)@;
            proof { assert(s.subrange(0, s.len() as int) =~= s); }
            let ghost mut hit: bool = false;
            while let Some(curedge) = edges.next_edge()
                invariant_except_break
                    edges.edges@ == edges0,
                    chain(edges0, edges.next, d.k(), s.subrange(done, s.len() as int)),
                    !hit,
                invariant
                    final(edges.edges)@ == fin,
                    edges.dir == d, k == d.k(), 0 <= done <= s.len(),
                    edges0.len() == old(self).edges@.len(),
                    forall|i: int, j: int| 0 <= i < j < s.len() ==> s[i] != s[j],
                    forall|i: int| 0 <= i < done ==> edges0[s[i]].next[d.k()].0.ix() != e.0.ix(),
                    first_link(edges0, d.k(), s, e) == done + first_link(edges0, d.k(), s.subrange(done, s.len() as int), e),
                ensures
                    !hit ==> edges.edges@ == edges0 && first_link(edges0, d.k(), s, e) == s.len(),
                    hit ==> {
                        let p = first_link(edges0, d.k(), s, e);
                        &&& p == done && p < s.len()
                        &&& edges.edges@.len() == edges0.len()
                        &&& forall|j: int| 0 <= j < edges0.len() && j != s[p] ==> edges.edges@[j] == edges0[j]
                        &&& edges.edges@[s[p]].next[d.k()] == repl
                        &&& same_but_next(edges.edges@[s[p]], edges0[s[p]], d.k())
                    },
                decreases s.len() - done
            {
                proof {
                    let rest = s.subrange(done, s.len() as int);
                    assert(rest.len() > 0);
                    assert(rest[0] == s[done]);
                    assert(rest.drop_first() =~= s.subrange(done + 1, s.len() as int));
                }
                if curedge.next[k] == e {
                    curedge.next[k] = repl;
                    proof { hit = true; }
                    break; // the edge can only be present once in the list.
                }
                proof { done = done + 1; }
            }
        }
    }
}

// ---- list-level consequence of the raw relink: unlinking position q of a duplicate-free chain ----
pub open spec fn no_dup(s: Seq<int>) -> bool { forall|i: int, j: int| 0 <= i < j < s.len() ==> s[i] != s[j] }

// updating next[k] of an edge that is not in s leaves chain(.., s) intact
pub proof fn lemma_chain_frame<E, Ix: IndexType>(es: Seq<Edge<E, Ix>>, es2: Seq<Edge<E, Ix>>, head: EdgeIndex<Ix>, k: int, s: Seq<int>)
    requires
        chain(es, head, k, s), es2.len() == es.len(),
        forall|i: int| 0 <= i < s.len() ==> es2[#[trigger] s[i]].next[k] == es[s[i]].next[k],
    ensures chain(es2, head, k, s)
    decreases s.len()
{
    if s.len() > 0 {
        let t = s.drop_first();
        assert forall|i: int| 0 <= i < t.len() implies es2[#[trigger] t[i]].next[k] == es[t[i]].next[k] by {
            assert(t[i] == s[i + 1]);
        }
        lemma_chain_frame(es, es2, es[s[0]].next[k], k, t);
    }
}

pub proof fn lemma_chain_range<E, Ix: IndexType>(es: Seq<Edge<E, Ix>>, head: EdgeIndex<Ix>, k: int, s: Seq<int>)
    requires chain(es, head, k, s)
    ensures forall|i: int| 0 <= i < s.len() ==> 0 <= #[trigger] s[i] < es.len()
    decreases s.len()
{
    if s.len() > 0 {
        let t = s.drop_first();
        lemma_chain_range(es, es[s[0]].next[k], k, t);
        assert forall|i: int| 0 <= i < s.len() implies 0 <= #[trigger] s[i] < es.len() by {
            if i > 0 { assert(s[i] == t[i - 1]); }
        }
    }
}
// suffix of a chain is a chain from the corresponding pointer
pub proof fn lemma_chain_suffix<E, Ix: IndexType>(es: Seq<Edge<E, Ix>>, head: EdgeIndex<Ix>, k: int, s: Seq<int>, q: int)
    requires chain(es, head, k, s), 0 <= q < s.len()
    ensures chain(es, es[s[q]].next[k], k, s.subrange(q + 1, s.len() as int)),
            q == 0 ==> head.0.ix() == s[0],
            q > 0 ==> es[s[q - 1]].next[k].0.ix() == s[q],
    decreases q
{
    if q == 0 {
        assert(s.drop_first() =~= s.subrange(1, s.len() as int));
    } else {
        let t = s.drop_first();
        lemma_chain_suffix(es, es[s[0]].next[k], k, t, q - 1);
        assert(t.subrange(q, t.len() as int) =~= s.subrange(q + 1, s.len() as int));
        assert(t[q - 1] == s[q]);
        if q - 1 > 0 { assert(t[q - 2] == s[q - 1]); }
    }
}

// unlink: s = pre ++ [e] ++ post, the pointer that led to e (in element s[q-1], q >= 1) now holds es[e].next[k]
pub proof fn lemma_unlink_inner<E, Ix: IndexType>(es: Seq<Edge<E, Ix>>, es2: Seq<Edge<E, Ix>>, head: EdgeIndex<Ix>, k: int, s: Seq<int>, q: int)
    requires
        chain(es, head, k, s), no_dup(s), 1 <= q < s.len(), es2.len() == es.len(),
        es2[s[q - 1]].next[k] == es[s[q]].next[k],
        forall|j: int| 0 <= j < es.len() && j != s[q - 1] ==> es2[j].next[k] == es[j].next[k],
    ensures
        chain(es2, head, k, s.subrange(0, q) + s.subrange(q + 1, s.len() as int)),
    decreases q
{
    let t = s.drop_first();
    let r = s.subrange(0, q) + s.subrange(q + 1, s.len() as int);
    assert(r[0] == s[0]);
    if q == 1 {
        // element s[0] now points past s[1]
        lemma_chain_suffix(es, head, k, s, 1);
        lemma_chain_range(es, head, k, s);
        let post = s.subrange(2, s.len() as int);
        assert forall|i: int| 0 <= i < post.len() implies es2[#[trigger] post[i]].next[k] == es[post[i]].next[k] by {
            assert(post[i] == s[i + 2]);
            assert(s[0] != s[i + 2]);
        }
        lemma_chain_frame(es, es2, es[s[1]].next[k], k, post);
        assert(r.drop_first() =~= post);
    } else {
        assert(t[q - 2] == s[q - 1]);
        assert(t[q - 1] == s[q]);
        assert(no_dup(t)) by {
            assert forall|i: int, j: int| 0 <= i < j < t.len() implies t[i] != t[j] by { assert(t[i] == s[i+1]); assert(t[j] == s[j+1]); }
        }
        assert(s[0] != s[q - 1]);
        lemma_unlink_inner(es, es2, es[s[0]].next[k], k, t, q - 1);
        assert(r.drop_first() =~= t.subrange(0, q - 1) + t.subrange(q, t.len() as int));
        assert(es2[s[0]].next[k] == es[s[0]].next[k]);
    }
}

pub struct Neighbors<'a, E: 'a, Ix: 'a> {
    /// starting node to skip over
    pub skip_start: NodeIndex<Ix>,
    pub edges: &'a [Edge<E, Ix>],
    pub next: [EdgeIndex<Ix>; 2],
}

// targets along the out-chain, then sources along the in-chain that are not the start node
pub open spec fn out_part<E, Ix: IndexType>(es: Seq<Edge<E, Ix>>, so: Seq<int>) -> Seq<usize> {
    Seq::new(so.len(), |i: int| es[so[i]].node[1].0.ix())
}
pub open spec fn in_part<E, Ix: IndexType>(es: Seq<Edge<E, Ix>>, si: Seq<int>, skip: usize) -> Seq<usize>
    decreases si.len()
{
    if si.len() == 0 { Seq::empty() }
    else if es[si[0]].node[0].0.ix() == skip { in_part(es, si.drop_first(), skip) }
    else { seq![es[si[0]].node[0].0.ix()] + in_part(es, si.drop_first(), skip) }
}


impl<'a, E, Ix: IndexType> Neighbors<'a, E, Ix> {
    pub open spec fn lists_exist(&self) -> bool {
        (exists|so: Seq<int>| chain(self.edges@, self.next[0], 0, so)) && (exists|si: Seq<int>| chain(self.edges@, self.next[1], 1, si))
    }
    pub open spec fn so(&self) -> Seq<int> { choose|so: Seq<int>| chain(self.edges@, self.next[0], 0, so) }
    pub open spec fn si(&self) -> Seq<int> { choose|si: Seq<int>| chain(self.edges@, self.next[1], 1, si) }
    pub open spec fn rem(&self) -> Seq<NodeIndex<Ix>> {
        out_part2(self.edges@, self.so()) + in_part2(self.edges@, self.si(), self.skip_start.0.ix())
    }
}
pub open spec fn out_part2<E, Ix: IndexType>(es: Seq<Edge<E, Ix>>, so: Seq<int>) -> Seq<NodeIndex<Ix>> {
    Seq::new(so.len(), |i: int| es[so[i]].node[1])
}
pub open spec fn in_part2<E, Ix: IndexType>(es: Seq<Edge<E, Ix>>, si: Seq<int>, skip: usize) -> Seq<NodeIndex<Ix>>
    decreases si.len()
{
    if si.len() == 0 { Seq::empty() }
    else if es[si[0]].node[0].0.ix() == skip { in_part2(es, si.drop_first(), skip) }
    else { seq![es[si[0]].node[0]] + in_part2(es, si.drop_first(), skip) }
}
pub proof fn lemma_in_part_len<E, Ix: IndexType>(es: Seq<Edge<E, Ix>>, si: Seq<int>, ri: Seq<int>, skip: usize)
    ensures true
{ }
pub proof fn lemma_chain_unique<E, Ix: IndexType>(es: Seq<Edge<E, Ix>>, head: EdgeIndex<Ix>, k: int, s: Seq<int>, t: Seq<int>)
    requires chain(es, head, k, s), chain(es, head, k, t)
    ensures s == t
    decreases s.len()
{
    if s.len() == 0 {
        if t.len() > 0 { assert(false); }
        assert(t =~= s);
    } else {
        if t.len() == 0 { assert(false); }
        lemma_chain_unique(es, es[s[0]].next[k], k, s.drop_first(), t.drop_first());
        assert(t =~= seq![t[0]] + t.drop_first());
        assert(s =~= seq![s[0]] + s.drop_first());
    }
}

impl<'a, E, Ix: IndexType> vstd::std_specs::iter::IteratorSpecImpl for Neighbors<'a, E, Ix> {
    open spec fn obeys_prophetic_iter_laws(&self) -> bool { self.lists_exist() }
    open spec fn remaining(&self) -> Seq<NodeIndex<Ix>> { self.rem() }
    open spec fn decrease(&self) -> Option<nat> { Some(self.so().len() + self.si().len()) }
    open spec fn will_return_none(&self) -> bool { true }
    open spec fn peek(&self, i: int) -> Option<NodeIndex<Ix>> { None }
}

impl<E, Ix> Iterator for Neighbors<'_, E, Ix>
where
    Ix: IndexType,
{
    type Item = NodeIndex<Ix>;

    #[verifier::exec_allows_no_decreases_clause]
    fn next(&mut self) -> (r: Option<NodeIndex<Ix>>) {
        let ghost so = self.so();
        let ghost si = self.si();
        let ghost es = self.edges@;
        let ghost skip = self.skip_start.0.ix();
        // First any outgoing edges
        match self.edges.get(self.next[0].index()) {
            None => {}
            Some(edge) => {
                self.next[0] = edge.next[0];
                proof {
                    if old(self).lists_exist() {
                        assert(so.len() > 0);
                        // new chains
                        assert(chain(es, self.next[0], 0, so.drop_first()));
                        assert(chain(es, self.next[1], 1, si));
                        lemma_chain_unique(es, self.next[0], 0, so.drop_first(), self.so());
                        lemma_chain_unique(es, self.next[1], 1, si, self.si());
                        assert(out_part2(es, so) =~= seq![edge.node[1]] + out_part2(es, so.drop_first()));
                        assert(old(self).rem() =~= seq![edge.node[1]] + self.rem());
                        assert(self.rem() =~= old(self).rem().skip(1));
                        assert(self.lists_exist());
                        assert(self.so().len() + self.si().len() < so.len() + si.len());
                    } else {
                        if self.lists_exist() {
                            let so2 = choose|so2: Seq<int>| chain(es, self.next[0], 0, so2);
                            let si2 = choose|si2: Seq<int>| chain(es, self.next[1], 1, si2);
                            let i = old(self).next[0].0.ix() as int;
                            let full = seq![i] + so2;
                            assert(full.drop_first() =~= so2);
                            assert(chain(es, old(self).next[0], 0, full));
                            assert(chain(es, old(self).next[1], 1, si2));
                            assert(false);
                        }
                    }
                }
                return Some(edge.node[1]);
            }
        }
        proof { if old(self).lists_exist() { assert(so.len() == 0); assert(out_part2(es, so) =~= Seq::<NodeIndex<Ix>>::empty()); } }
        let ghost mut ri = si;
        // Then incoming edges
        while let Some(edge) = self.edges.get(self.next[1].index())
            invariant
                self.edges@ == es, self.skip_start == old(self).skip_start, skip == self.skip_start.0.ix(),
                self.next[0] == old(self).next[0],
                old(self).lists_exist() ==> so.len() == 0 && chain(es, self.next[0], 0, so) && chain(es, self.next[1], 1, ri)
                    && in_part2(es, ri, skip) == in_part2(es, si, skip),
            ensures
                self.next[1].0.ix() >= es.len(),
        {
            let ghost ri0 = ri;
            self.next[1] = edge.next[1];
            proof { if old(self).lists_exist() { assert(ri.len() > 0); } }
            if edge.node[0] != self.skip_start {
                proof { if old(self).lists_exist() {
                    lemma_in_part_len(es, si, ri0, skip);
                    assert(chain(es, self.next[1], 1, ri0.drop_first()));
                    lemma_chain_unique(es, self.next[0], 0, so, self.so());
                    lemma_chain_unique(es, self.next[1], 1, ri0.drop_first(), self.si());
                    assert(out_part2(es, so) =~= Seq::<NodeIndex<Ix>>::empty());
                    assert(in_part2(es, ri0, skip) =~= seq![edge.node[0]] + in_part2(es, ri0.drop_first(), skip));
                    assert(old(self).rem() =~= seq![edge.node[0]] + self.rem());
                    assert(self.rem() =~= old(self).rem().skip(1));
                    assert(self.lists_exist());
                } }
                return Some(edge.node[0]);
            }
            proof { if old(self).lists_exist() { lemma_in_part_len(es, si, ri0, skip); } ri = ri.drop_first(); }
        }
        proof {
            if old(self).lists_exist() {
                assert(ri.len() == 0);
                lemma_chain_unique(es, self.next[0], 0, so, self.so());
                lemma_chain_unique(es, self.next[1], 1, ri, self.si());
                assert(old(self).rem() =~= Seq::<NodeIndex<Ix>>::empty());
                assert(self.lists_exist());
            }
        }
        None
    }
}
}
fn main() {}
