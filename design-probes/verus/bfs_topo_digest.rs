use vstd::prelude::*;
use vstd::std_specs::iter::*;
use std::collections::VecDeque;
verus! {
pub trait GraphBase { type NodeId: Copy + PartialEq; }
pub trait IntoNeighbors: GraphBase + Copy {
    type Neighbors: Iterator<Item = Self::NodeId>;
    spec fn succ(self, a: Self::NodeId) -> Seq<Self::NodeId>;
    fn neighbors(self, a: Self::NodeId) -> (r: Self::Neighbors)
        ensures r.obeys_prophetic_iter_laws(), r.decrease() is Some, r.remaining() == self.succ(a);
}
pub trait VisitMap<N> {
    spec fn set(&self) -> Set<N>;
    fn visit(&mut self, a: N) -> (r: bool)
        ensures r == !old(self).set().contains(a), final(self).set() == old(self).set().insert(a);
    fn is_visited(&self, a: &N) -> (r: bool)
        ensures r == self.set().contains(*a);
}
pub struct Bfs<N, VM> {
    pub stack: VecDeque<N>,
    pub discovered: VM,
}
impl<N, VM> Bfs<N, VM>
where
    N: Copy + PartialEq,
    VM: VisitMap<N>,
{
    #[verifier::exec_allows_no_decreases_clause]
    pub fn next<G>(&mut self, graph: G) -> Option<N>
    where
        G: IntoNeighbors<NodeId = N>,
    {
        if let Some(node) = self.stack.pop_front() {
            let mut __it = graph.neighbors(node);
            loop {
                match __it.next() { None => break, Some(succ) => {
                if self.discovered.visit(succ) {
                    self.stack.push_back(succ);
                }
                } }
            }

            return Some(node);
        }
        None
    }
}
pub struct Topo<N, VM> {
    tovisit: Vec<N>,
    ordered: VM,
}
impl<N, VM> Topo<N, VM>
where
    N: Copy + PartialEq,
    VM: VisitMap<N>,
{
    #[verifier::exec_allows_no_decreases_clause]
    pub fn next<G>(&mut self, g: G) -> Option<N>
    where
        G: IntoNeighbors<NodeId = N>,
    {
        while let Some(nix) = self.tovisit.pop() {
            if self.ordered.is_visited(&nix) {
                continue;
            }
            self.ordered.visit(nix);
            let mut __it = g.neighbors(nix);
            loop { match __it.next() { None => break, Some(neigh) => {
                if g
                    .neighbors(neigh)
                    .all(|b| self.ordered.is_visited(&b))
                {
                    self.tovisit.push(neigh);
                }
            } } }
            return Some(nix);
        }
        None
    }
}
}
fn main() {}
