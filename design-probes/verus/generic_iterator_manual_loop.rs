use vstd::prelude::*;
use vstd::std_specs::iter::*;
verus! {
fn f<I: Iterator<Item = u32>>(it: I) -> (r: Vec<u32>)
    requires it.obeys_prophetic_iter_laws(), it.decrease() is Some,
    ensures r@ == it.remaining()
{
    let mut v: Vec<u32> = Vec::new();
    let mut __it = it;
    let ghost all = it.remaining();
    loop
        invariant __it.obeys_prophetic_iter_laws(), __it.decrease() is Some,
            all == v@ + __it.remaining(),
        ensures v@ == all
        decreases __it.decrease()->Some_0
    {
        match __it.next() {
            None => { assert(__it.remaining().len() == 0) by { }; assert(v@ + Seq::<u32>::empty() =~= v@); break; }
            Some(x) => { v.push(x); 
               proof { assert(all =~= v@ + __it.remaining()); }
            }
        }
    }
    v
}
}
fn main() {}
