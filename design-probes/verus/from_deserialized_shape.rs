use vstd::prelude::*;
use core::marker::PhantomData;
verus! {
global size_of usize == 8;
pub trait Error: Sized { }
pub unsafe trait IndexType: Copy {
    spec fn ix(&self) -> usize;
    spec fn spec_max() -> usize;
    fn index(&self) -> (r: usize) ensures r == self.ix(), r <= Self::spec_max();
    fn max() -> (r: Self) ensures r.ix() == Self::spec_max();
}
pub struct Node<N> { pub weight: N }
pub struct Edge<E> { pub weight: E }
pub struct Graph<N, E, Ty, Ix> { pub nodes: Vec<Node<N>>, pub edges: Vec<Edge<E>>, pub ty: PhantomData<(Ty, Ix)> }
pub struct DeserGraph<N, E, Ix> { pub nodes: Vec<Node<N>>, pub edges: Vec<Edge<E>>, pub p: PhantomData<Ix>, pub edge_property: u8 }

#[verifier::external_body]
pub fn invalid_length_err<Ix, E>(node_or_edge: &str, len: usize) -> E
where
    E: Error,
    Ix: IndexType,
{ unimplemented!() }
#[verifier::external_body]
pub fn invalid_node_err<E: Error>(a: usize, b: usize) -> E { unimplemented!() }

fn edge_prop<Ty, E2: Error>(x: u8) -> Result<PhantomData<Ty>, E2> { Ok(PhantomData) }

impl<N, E, Ty, Ix: IndexType> Graph<N, E, Ty, Ix> {
    fn node_count(&self) -> usize { self.nodes.len() }
    fn link_edges(&mut self) -> Result<(), usize> { Ok(()) }
    fn from_deserialized<E2>(input: DeserGraph<N, E, Ix>) -> (r: Result<Self, E2>)
    where
        E2: Error,
        ensures r is Ok ==> r->Ok_0.nodes.len() < Ix::spec_max()
    {
        let ty = edge_prop::<(Ty, Ix), E2>(input.edge_property)?;
        let nodes = input.nodes;
        let edges = input.edges;
        if nodes.len() >= <Ix as IndexType>::max().index() {
            Err(invalid_length_err::<Ix, _>("node", nodes.len()))?
        }

        if edges.len() >= <Ix as IndexType>::max().index() {
            Err(invalid_length_err::<Ix, _>("edge", edges.len()))?
        }

        let mut gr = Graph { nodes, edges, ty };
        let nc = gr.node_count();
        gr.link_edges()
            .map_err(|i| invalid_node_err(i, nc))?;
        Ok(gr)
    }
}
}
fn main() {}
