use vstd::prelude::*;
verus! {
global size_of usize == 8;

pub open spec fn tri(r: int, c: int) -> int { if r > c { r * (r + 1) / 2 + c } else { c * (c + 1) / 2 + r } }

#[inline]
fn to_lower_triangular_matrix_position(row: usize, column: usize) -> (p: usize)
    requires row < 0x1_0000_0000, column < 0x1_0000_0000,
    ensures p == tri(row as int, column as int)
{
    let (row, column) = if row > column {
        (row, column)
    } else {
        (column, row)
    };
    assert((row as int) * (row as int + 1) < 0x1_0000_0000 * 0x1_0000_0001) by (nonlinear_arith) requires row < 0x1_0000_0000;
    (row * (row + 1)) / 2 + column
}

proof fn lemma_tri_bound(r: int, c: int, n: int)
    requires 0 <= r < n, 0 <= c < n
    ensures 0 <= tri(r, c) < n * (n + 1) / 2
{
    let (a, b) = if r > c { (r, c) } else { (c, r) };
    assert(a * (a + 1) / 2 + b < (a + 1) * (a + 2) / 2) by (nonlinear_arith) requires 0 <= b <= a;
    assert((a + 1) * (a + 2) / 2 <= n * (n + 1) / 2) by (nonlinear_arith) requires 0 <= a < n;
}
proof fn lemma_tri_inj(r1: int, c1: int, r2: int, c2: int)
    requires 0 <= c1 <= r1, 0 <= c2 <= r2, tri(r1, c1) == tri(r2, c2)
    ensures r1 == r2 && c1 == c2
{
    if r1 < r2 {
        assert(r1 * (r1 + 1) / 2 + c1 < (r1 + 1) * (r1 + 2) / 2) by (nonlinear_arith) requires 0 <= c1 <= r1;
        assert((r1 + 1) * (r1 + 2) / 2 <= r2 * (r2 + 1) / 2) by (nonlinear_arith) requires 0 <= r1 < r2;
    } else if r2 < r1 {
        assert(r2 * (r2 + 1) / 2 + c2 < (r2 + 1) * (r2 + 2) / 2) by (nonlinear_arith) requires 0 <= c2 <= r2;
        assert((r2 + 1) * (r2 + 2) / 2 <= r1 * (r1 + 1) / 2) by (nonlinear_arith) requires 0 <= r2 < r1;
    }
}

fn get_number_as_bits(n: usize, bits_length: usize) -> (bits: Vec<usize>) 
    requires bits_length <= 64
    ensures bits.len() == bits_length,
            forall|j: int| 0 <= j < bits_length ==> bits@[j] == (n >> ((bits_length - 1 - j) as usize)) & 1
{
    let mut bits = Vec::new();
    for i in (0..bits_length).rev() 
    {
        bits.push((n >> i) & 1);
    }
    bits
}
}
fn main() {}
