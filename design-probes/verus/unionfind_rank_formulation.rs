use vstd::prelude::*;
use vstd::std_specs::cmp::*;
verus! {
global size_of usize == 8;

pub unsafe trait IndexType: Copy + PartialEq {
    spec fn ix(&self) -> usize;
    spec fn spec_max() -> usize;
    proof fn eq_law()
        ensures Self::obeys_eq_spec(),
                forall|a: Self, b: Self| #[trigger] a.eq_spec(&b) <==> a.ix() == b.ix();
    fn new(x: usize) -> (r: Self)
        ensures x <= Self::spec_max() ==> r.ix() == x;
    fn index(&self) -> (r: usize)
        ensures r == self.ix(), r <= Self::spec_max();
    fn max() -> (r: Self)
        ensures r.ix() == Self::spec_max();
}

unsafe impl IndexType for u32 {
    open spec fn ix(&self) -> usize { *self as usize }
    open spec fn spec_max() -> usize { u32::MAX as usize }
    proof fn eq_law() {}
    #[inline(always)]
    fn new(x: usize) -> Self { x as u32 }
    #[inline(always)]
    fn index(&self) -> usize { *self as usize }
    #[inline(always)]
    fn max() -> Self { u32::MAX }
}
unsafe impl IndexType for usize {
    open spec fn ix(&self) -> usize { *self }
    open spec fn spec_max() -> usize { usize::MAX }
    proof fn eq_law() {}
    #[inline(always)]
    fn new(x: usize) -> Self { x }
    #[inline(always)]
    fn index(&self) -> Self { *self }
    #[inline(always)]
    fn max() -> Self { usize::MAX }
}

pub struct UnionFind<K> {
    pub parent: Vec<K>,
    pub rank: Vec<u8>,
}

#[inline]
#[verifier::external_body]
unsafe fn get_unchecked<K>(xs: &[K], index: usize) -> (r: &K)
    requires index < xs@.len()
    ensures *r == xs@[index as int]
{
    xs.get_unchecked(index)
}

impl<K> UnionFind<K>
where
    K: IndexType,
{
    pub open spec fn wf(&self) -> bool {
        &&& self.parent.len() == self.rank.len()
        &&& forall|i: int| 0 <= i < self.parent.len() ==> (#[trigger] self.parent@[i]).ix() < self.parent.len()
        &&& forall|i: int| 0 <= i < self.parent.len() && self.parent@[i].ix() != i ==> self.rank@[i] < self.rank@[(#[trigger] self.parent@[i]).ix() as int]
    }
    pub open spec fn root(&self, i: int) -> int
        decreases 256 - self.rank@[i]
        when self.wf() && 0 <= i < self.parent.len()
    {
        if self.parent@[i].ix() == i { i } else { self.root(self.parent@[i].ix() as int) }
    }

    pub fn len(&self) -> (r: usize) ensures r == self.parent.len()
    {
        self.parent.len()
    }

    pub fn try_find(&self, mut x: K) -> (r: Option<K>)
        requires self.wf()
        ensures 
            r is None <==> x.ix() >= self.parent.len(),
            r is Some ==> r.unwrap().ix() == self.root(x.ix() as int),
    {
        if x.index() >= self.len() {
            return None;
        }
        let ghost x0 = x;
        loop
            invariant self.wf(), x.ix() < self.parent.len(), self.root(x.ix() as int) == self.root(x0.ix() as int),
            ensures self.parent@[x.ix() as int].ix() == x.ix(), self.root(x.ix() as int) == self.root(x0.ix() as int), x.ix() < self.parent.len(), 
            decreases 256 - self.rank@[x.ix() as int]
        {
            // Use unchecked indexing because we can trust the internal set ids.
            let xparent = unsafe { *get_unchecked(&self.parent, x.index()) };
            proof { K::eq_law(); }
            if xparent == x {
                break;
            }
            x = xparent;
        }

        Some(x)
    }
}
#[inline]
#[verifier::external_body]
unsafe fn get_unchecked_mut<K>(xs: &mut [K], index: usize) -> (r: &mut K)
    requires index < old(xs)@.len()
    ensures *r == old(xs)@[index as int], final(xs)@ == old(xs)@.update(index as int, *final(r))
{
    xs.get_unchecked_mut(index)
}

impl<K> UnionFind<K>
where
    K: IndexType,
{
    // same_roots: partition and representatives unchanged
    pub open spec fn same_roots(&self, o: &Self) -> bool {
        &&& self.parent.len() == o.parent.len()
        &&& forall|i: int| 0 <= i < self.parent.len() ==> #[trigger] self.root(i) == o.root(i)
    }

    pub proof fn lemma_root_props(&self, i: int)
        requires self.wf(), 0 <= i < self.parent.len()
        ensures 0 <= self.root(i) < self.parent.len(),
                self.parent@[self.root(i)].ix() == self.root(i),
                self.rank@[i] <= self.rank@[self.root(i)],
                self.root(self.root(i)) == self.root(i),
        decreases 256 - self.rank@[i]
    {
        if self.parent@[i].ix() != i {
            self.lemma_root_props(self.parent@[i].ix() as int);
        }
    }

    // redirecting x's parent to any node gp with the same root and larger rank preserves all roots
    pub proof fn lemma_redirect(old_s: &Self, new_s: &Self, x: int, gp: int)
        requires
            old_s.wf(), 0 <= x < old_s.parent.len(), 0 <= gp < old_s.parent.len(),
            old_s.root(gp) == old_s.root(x),
            old_s.rank@[x] < old_s.rank@[gp],
            new_s.rank@ == old_s.rank@,
            new_s.parent@.len() == old_s.parent@.len(),
            forall|j: int| 0 <= j < old_s.parent.len() && j != x ==> new_s.parent@[j] == old_s.parent@[j],
            new_s.parent@[x].ix() == gp,
            old_s.parent@[x].ix() != x,
        ensures
            new_s.wf(), new_s.same_roots(old_s),
    {
        assert(new_s.wf());
        assert forall|i: int| 0 <= i < new_s.parent.len() implies #[trigger] new_s.root(i) == old_s.root(i) by {
            Self::lemma_redirect_i(old_s, new_s, x, gp, i);
        }
    }
    pub proof fn lemma_redirect_i(old_s: &Self, new_s: &Self, x: int, gp: int, i: int)
        requires
            old_s.wf(), new_s.wf(), 0 <= x < old_s.parent.len(), 0 <= gp < old_s.parent.len(),
            old_s.root(gp) == old_s.root(x),
            old_s.rank@[x] < old_s.rank@[gp],
            new_s.rank@ == old_s.rank@,
            new_s.parent@.len() == old_s.parent@.len(),
            forall|j: int| 0 <= j < old_s.parent.len() && j != x ==> new_s.parent@[j] == old_s.parent@[j],
            new_s.parent@[x].ix() == gp,
            old_s.parent@[x].ix() != x,
            0 <= i < old_s.parent.len(),
        ensures new_s.root(i) == old_s.root(i)
        decreases 256 - old_s.rank@[i]
    {
        if i == x {
            Self::lemma_redirect_i(old_s, new_s, x, gp, gp);
        } else if old_s.parent@[i].ix() != i {
            Self::lemma_redirect_i(old_s, new_s, x, gp, old_s.parent@[i].ix() as int);
        }
    }

    unsafe fn find_mut_recursive(&mut self, mut x: K) -> (r: K)
        requires old(self).wf(), x.ix() < old(self).parent.len()
        ensures final(self).wf(), final(self).same_roots(old(self)), final(self).rank@ == old(self).rank@,
                r.ix() == old(self).root(x.ix() as int),
    {
        let ghost x0 = x;
        let ghost s0 = *self;
        let mut parent = *get_unchecked(&self.parent, x.index());
        while parent != x
            invariant
                self.wf(), self.same_roots(&s0), self.rank@ == s0.rank@,
                x.ix() < self.parent.len(),
                parent == self.parent@[x.ix() as int],
                self.root(x.ix() as int) == s0.root(x0.ix() as int),
            decreases 256 - self.rank@[x.ix() as int]
        {
            proof { K::eq_law(); }
            let grandparent = *get_unchecked(&self.parent, parent.index());
            let ghost before = *self;
            *get_unchecked_mut(&mut self.parent, x.index()) = grandparent;
            proof {
                before.lemma_root_props(x.ix() as int);
                let p = parent.ix() as int;
                assert(before.root(x.ix() as int) == before.root(p));
                assert(before.root(p) == before.root(grandparent.ix() as int));
                assert(before.rank@[x.ix() as int] < before.rank@[p]);
                assert(before.rank@[p] <= before.rank@[grandparent.ix() as int]);
                Self::lemma_redirect(&before, self, x.ix() as int, grandparent.ix() as int);
            }
            x = parent;
            parent = grandparent;
        }
        proof { K::eq_law(); }
        x
    }
}

use core::cmp::Ordering;
impl<K> UnionFind<K>
where
    K: IndexType,
{
    pub fn try_find_mut(&mut self, x: K) -> (r: Option<K>)
        requires old(self).wf()
        ensures final(self).wf(), final(self).same_roots(old(self)), final(self).rank@ == old(self).rank@,
            r is None <==> x.ix() >= old(self).parent.len(),
            r is Some ==> r.unwrap().ix() == old(self).root(x.ix() as int),
    {
        if x.index() >= self.len() {
            return None;
        }
        Some(unsafe { self.find_mut_recursive(x) })
    }

    pub proof fn lemma_link(old_s: &Self, new_s: &Self, c: int, w: int, i: int)
        requires
            old_s.wf(), new_s.wf(),
            0 <= c < old_s.parent.len(), 0 <= w < old_s.parent.len(), c != w,
            old_s.parent@[c].ix() == c, old_s.parent@[w].ix() == w,
            new_s.parent@.len() == old_s.parent@.len(),
            new_s.rank@.len() == old_s.rank@.len(),
            forall|j: int| 0 <= j < old_s.parent.len() && j != c ==> new_s.parent@[j] == old_s.parent@[j],
            forall|j: int| 0 <= j < old_s.parent.len() && j != w ==> new_s.rank@[j] == old_s.rank@[j],
            new_s.rank@[w] >= old_s.rank@[w],
            new_s.parent@[c].ix() == w,
            0 <= i < old_s.parent.len(),
        ensures new_s.root(i) == (if old_s.root(i) == c { w } else { old_s.root(i) })
        decreases 256 - old_s.rank@[i]
    {
        if i == c {
            assert(new_s.root(w) == w);
        } else if old_s.parent@[i].ix() != i {
            Self::lemma_link(old_s, new_s, c, w, old_s.parent@[i].ix() as int);
        }
    }

    pub open spec fn merged(&self, o: &Self, rx: int, ry: int, w: int) -> bool {
        forall|i: int| 0 <= i < o.parent.len() ==>
            #[trigger] self.root(i) == (if o.root(i) == rx || o.root(i) == ry { w } else { o.root(i) })
    }

    pub fn try_union(&mut self, x: K, y: K) -> (res: Result<bool, K>)
        requires old(self).wf()
        ensures
            final(self).wf(), final(self).parent.len() == old(self).parent.len(),
            // documented no-op
            x.ix() == y.ix() ==> res == Ok::<bool, K>(false) && final(self).same_roots(old(self)),
            // errors: first bad index, partition unchanged
            x.ix() != y.ix() && x.ix() >= old(self).parent.len() ==> res is Err && res->Err_0.ix() == x.ix() && final(self).same_roots(old(self)),
            x.ix() != y.ix() && x.ix() < old(self).parent.len() && y.ix() >= old(self).parent.len() ==> res is Err && res->Err_0.ix() == y.ix() && final(self).same_roots(old(self)),
            // both valid
            x.ix() != y.ix() && x.ix() < old(self).parent.len() && y.ix() < old(self).parent.len() ==> {
                let rx = old(self).root(x.ix() as int);
                let ry = old(self).root(y.ix() as int);
                &&& res is Ok
                &&& res == Ok::<bool, K>(rx != ry)
                &&& rx == ry ==> final(self).same_roots(old(self))
                &&& rx != ry ==> (final(self).merged(old(self), rx, ry, rx) || final(self).merged(old(self), rx, ry, ry))
            },
    {
        proof { K::eq_law(); }
        if x == y {
            return Ok(false);
        }
        let ghost s0 = *self;
        let xrep = self.try_find_mut(x).ok_or(x)?;
        let ghost s1 = *self;
        let yrep = self.try_find_mut(y).ok_or(y)?;
        let ghost s2 = *self;

        if xrep == yrep {
            return Ok(false);
        }

        let xrepu = xrep.index();
        let yrepu = yrep.index();
        proof {
            s0.lemma_root_props(x.ix() as int);
            s0.lemma_root_props(y.ix() as int);
            s2.lemma_root_props(x.ix() as int);
            s2.lemma_root_props(y.ix() as int);
        }
        let xrank = self.rank[xrepu];
        let yrank = self.rank[yrepu];

        // The rank corresponds roughly to the depth of the treeset, so put the
        // smaller set below the larger
        match xrank.cmp(&yrank) {
            Ordering::Less => self.parent[xrepu] = yrep,
            Ordering::Greater => self.parent[yrepu] = xrep,
            Ordering::Equal => {
                self.parent[yrepu] = xrep;
                assume(self.rank[xrepu as int] < 255); // ASSUMPTION: rank overflow needs >= 2^255 elements
                self.rank[xrepu] += 1;
            }
        }
        proof {
            let rx = xrepu as int; let ry = yrepu as int;
            let (c, w) = if xrank < yrank { (rx, ry) } else { (ry, rx) };
            assert(self.wf());
            assert forall|i: int| 0 <= i < s0.parent.len() implies
                #[trigger] self.root(i) == (if s0.root(i) == rx || s0.root(i) == ry { w } else { s0.root(i) }) by {
                Self::lemma_link(&s2, self, c, w, i);
                assert(s2.root(i) == s0.root(i));
            }
            assert(self.merged(&s0, rx, ry, w));
        }
        Ok(true)
    }
}

}
fn main() {}
