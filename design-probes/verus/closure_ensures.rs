use vstd::prelude::*;
verus! {
pub struct Node { pub weight: u64, pub next: [u32;2] }
pub struct G { pub nodes: Vec<Node> }
impl G {
    pub fn node_weight(&self, a: usize) -> (r: Option<&u64>)
        ensures a < self.nodes.len() ==> r == Some(&self.nodes@[a as int].weight),
                a >= self.nodes.len() ==> r is None
    {
        self.nodes.get(a).map(|n: &Node| -> (r: &u64) ensures r == &n.weight { &n.weight })
    }
    pub fn node_weight2(&self, a: usize) -> (r: Option<&u64>)
        ensures a < self.nodes.len() ==> r == Some(&self.nodes@[a as int].weight),
                a >= self.nodes.len() ==> r is None
    {
        self.nodes.get(a).map(|n| &n.weight)
    }
}
}
fn main() {}
