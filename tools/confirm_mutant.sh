#!/bin/sh
# usage: confirm_mutant.sh <mutant dir with patch.diff demo.rs> <scratch worktree> -> prints CONFIRMED or the reason why not
# (a) compiles (b) existing suite passes with the change (c) demo fails with the change and passes without it
M="$1"; W="$2"
cd "$W" || exit 2
git checkout -q -- . && git clean -fdq tests/ >/dev/null 2>&1
cp "$M/demo.rs" tests/seed_demo.rs
export CARGO_NET_OFFLINE=true
if ! cargo test --offline -q --test seed_demo >/tmp/confirm_clean.$$ 2>&1; then echo "NOT-CONFIRMED: demo fails on the clean tree"; tail -5 /tmp/confirm_clean.$$; git clean -fdq tests/; exit 1; fi
git apply "$M/patch.diff" || { echo "NOT-CONFIRMED: patch does not apply"; exit 1; }
if cargo test --offline -q --test seed_demo >/tmp/confirm_mut.$$ 2>&1; then echo "NOT-CONFIRMED: demo passes with the change"; git checkout -q -- .; git clean -fdq tests/; exit 1; fi
rm tests/seed_demo.rs
if ! cargo test --workspace --no-fail-fast --offline >/tmp/confirm_suite.$$ 2>&1; then echo "NOT-CONFIRMED: existing suite fails with the change"; grep -E "^test .* FAILED|failed" /tmp/confirm_suite.$$ | head -5; git checkout -q -- .; exit 1; fi
PASSED=$(grep -E "^test result: ok" /tmp/confirm_suite.$$ | sed -E 's/.* ([0-9]+) passed.*/\1/' | paste -sd+ | bc)
git checkout -q -- .; git clean -fdq tests/ >/dev/null 2>&1
rm -f /tmp/confirm_clean.$$ /tmp/confirm_mut.$$ /tmp/confirm_suite.$$
echo "CONFIRMED: demo passes clean, fails mutated; existing suite passes with the change ($PASSED tests ok)"
