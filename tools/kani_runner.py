#!/usr/bin/env python3
"""
Kani side of the checks (DESIGN §1.1): complete proofs of loop-free / operand-width-bounded scalar
kernels, and BOUNDED stand-ins (labelled, never counted as proved) for code Verus cannot hold.
The harness modules live in /verif/kani/*.rs and are appended as `#[cfg(kani)] mod __verif_kani`
to a scratch COPY of /repo's working tree (rsync, outside /repo and /verif); /repo is not touched.
"""
import os, re, subprocess, json, time, shutil, hashlib
from concurrent.futures import ThreadPoolExecutor

def prepare(repo, workdir, harnesses, verif):
    dst = os.path.join(workdir, "kani_repo")
    os.makedirs(dst, exist_ok=True)
    subprocess.run(["rsync", "-a", "--delete", "--exclude", "target", "--exclude", ".git", repo.rstrip("/") + "/", dst + "/"], check=True)
    os.makedirs(os.path.join(dst, ".cargo"), exist_ok=True)
    with open(os.path.join(dst, ".cargo", "config.toml"), "a") as f:
        f.write("\n[net]\noffline = true\n")
    byfile = {}
    for h in harnesses:
        byfile.setdefault(h["file"], [])
        if h["snippet"] not in byfile[h["file"]]: byfile[h["file"]].append(h["snippet"])
    for rel, snippets in byfile.items():
        p = os.path.join(dst, rel)
        if not os.path.exists(p):
            raise RuntimeError("lost anchor: %s missing" % rel)
        with open(p, "a") as f:
            f.write("\n#[cfg(kani)]\nmod __verif_kani {\n    #![allow(unused_imports, dead_code, unused_mut, unused_variables)]\n    use super::*;\n")
            for sn in snippets:
                f.write(open(os.path.join(verif, "kani", sn)).read())
            f.write("\n}\n")
    return dst

def run_one(dst, h, target_dir, timeout):
    env = dict(os.environ, CARGO_NET_OFFLINE="true", CARGO_TARGET_DIR=target_dir)
    cmd = ["cargo", "kani", "--harness", h["harness"], "--output-format", "terse"] + h.get("args", [])
    t0 = time.time()
    try:
        p = subprocess.run(cmd, cwd=dst, env=env, capture_output=True, text=True, timeout=timeout)
        out = p.stdout + "\n" + p.stderr
        to = False
    except subprocess.TimeoutExpired as e:
        out = (e.stdout or b"").decode(errors="replace") if isinstance(e.stdout, bytes) else (e.stdout or "")
        to = True
    secs = time.time() - t0
    res = dict(name=h["name"], harness=h["harness"], complete=bool(h.get("complete")), bound=h.get("bound"), seconds=round(secs, 1),
               checks=0, failed=0, status="?", cmd=" ".join(cmd), output=out[-6000:])
    if to:
        res["status"] = "timeout"; return res
    m = re.search(r"\*\* (\d+) of (\d+) failed", out)
    if m:
        res["failed"], res["checks"] = int(m.group(1)), int(m.group(2))
    if "VERIFICATION:- SUCCESSFUL" in out:
        res["status"] = "ok"
        if not m:
            mm = re.search(r"(\d+) successfully verified harnesses", out)
            res["checks"] = max(res["checks"], 1)
    elif "VERIFICATION:- FAILED" in out:
        res["status"] = "failed"
        res["failed_checks"] = re.findall(r"Failed Checks: (.*)", out)[:10]
    else:
        res["status"] = "error"
    return res

def run(harnesses, repo, workdir, verif, timeout=1500):
    """returns (results, violations).  Raises RuntimeError for tool limits (-> exit 2)."""
    dst = prepare(repo, workdir, harnesses, verif)
    # (PGVERIF_KANI_TARGET: a private cargo target directory, for sweeps that run several checks at the same time)
    target_dir = os.environ.get("PGVERIF_KANI_TARGET") or os.path.join(verif, ".cache", "kani-target")
    os.makedirs(target_dir, exist_ok=True)
    # the first harness builds; the rest run in parallel on the warm target dir
    results = [run_one(dst, harnesses[0], target_dir, timeout)]
    if len(harnesses) > 1:
        with ThreadPoolExecutor(max_workers=4) as ex:
            results += list(ex.map(lambda h: run_one(dst, h, target_dir, timeout), harnesses[1:]))
    # an infrastructure error (e.g. several cargo-kani builds sharing the target directory at the same moment) is retried once, alone
    for k, (h, r) in enumerate(zip(harnesses, results)):
        if r["status"] == "error":
            time.sleep(5)
            results[k] = run_one(dst, h, target_dir, timeout)
    viol = []
    for h, r in zip(harnesses, results):
        if r["status"] in ("timeout", "error"):
            raise RuntimeError("kani harness %s: %s\n%s" % (r["name"], r["status"], r["output"][-1500:]))
        if r["status"] == "ok" and r["checks"] == 0:
            raise RuntimeError("kani harness %s reported zero checks (vacuity guard)" % r["name"])
        if r["status"] == "failed":
            ob = "kani::%s#%s" % (h["name"], ("complete" if h.get("complete") else "bounded"))
            os.makedirs(os.path.join(verif, "replay"), exist_ok=True)
            path = os.path.join(verif, "replay", "%s-kani-%s.json" % (h["props"][0], h["name"]))
            json.dump(dict(property=h["props"][0], verifier="kani", obligation=ob, harness=h["harness"], file=h["file"], snippet=h["snippet"],
                           verifier_cmd=r["cmd"], failed_checks=r.get("failed_checks"), verifier_output=r["output"], failing_input=None,
                           note="Re-run: ./check --replay %s" % path), open(path, "w"), indent=1)
            viol.append(dict(obligation=ob, replay=path, replayed=False, props=h["props"]))
    return results, viol

def replay(doc, repo, verif):
    import tempfile
    conf = json.load(open(os.path.join(verif, "units", "units.json")))
    hs = [h for h in conf.get("kani", []) if h["harness"] == doc["harness"]]
    if not hs:
        print("replay: harness %s is no longer registered" % doc["harness"]); return 2
    workdir = tempfile.mkdtemp(prefix="pgverif.", dir=os.environ.get("TMPDIR") or "/var/tmp")
    try:
        res, viol = run(hs, repo, workdir, verif)
        if viol:
            print("replay: %s still fails:\n%s" % (doc["obligation"], res[0]["output"][-2000:]))
            print("VIOLATION property=%s replay=%s obligation=%s no-failing-input-found" % (doc["property"], viol[0]["replay"], doc["obligation"]))
            return 1
        print("replay: %s passes on the current tree" % doc["obligation"]); return 0
    finally:
        shutil.rmtree(workdir, ignore_errors=True)
