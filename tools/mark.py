#!/usr/bin/env python3
"""
Authoring helper (not used by any check): given a fragment whose //@ item regions contain
plain Verus text (real body + spec text, no markers), insert the /*+*/../*-*/ markers by
aligning each region with the repository item.  Regions that already contain a marker are left
alone.  Differences that are not pure insertions are emitted as /*R:D? .. */ .. /*-*/ and
reported so that the rule id can be filled in by hand.

usage: mark.py <fragment.rs> [--repo /repo] [-o out.rs]
"""
import sys, os, re, difflib, argparse
sys.path.insert(0, os.path.dirname(os.path.abspath(__file__)))
from extract import tokenize, normalise, SourceFile, OPEN, CLOSE, parse_fragment

def balanced(toks):
    st = []
    for t in toks:
        if t.text in OPEN: st.append(OPEN[t.text])
        elif t.text in CLOSE:
            if not st or st.pop() != t.text: return False
    return not st

def main():
    ap = argparse.ArgumentParser()
    ap.add_argument("fragment")
    ap.add_argument("--repo", default="/repo")
    ap.add_argument("-o", "--out")
    a = ap.parse_args()
    text = open(a.fragment).read()
    srcs = {}
    out = []
    pos = 0
    problems = 0
    for m in re.finditer(r"^[ \t]*//@ item (.*)$", text, re.M):
        endm = re.compile(r"^[ \t]*//@ end.*$", re.M).search(text, m.end())
        if not endm:
            print("unterminated item", m.group(1)); sys.exit(1)
        body = text[m.end():endm.start()]
        out.append(text[pos:m.end()])
        pos = endm.start()
        if "//@ marked" in body:
            out.append(body); continue
        parts = [p.strip() for p in m.group(1).split("|")]
        rel, container, name = parts[0], parts[1], parts[2]
        occ = 0; subst = []
        for p in parts[3:]:
            if p.startswith("occ="): occ = int(p[4:])
            if p.startswith("subst="):
                for kv in p[6:].split(","):
                    k_, v_ = kv.split(":", 1); subst.append((k_.strip(), v_.strip()))
        key = (rel, tuple(subst))
        if key not in srcs: srcs[key] = SourceFile(os.path.join(a.repo, rel), tuple(subst))
        st = srcs[key].find(container, name, occ)
        if st is None:
            print("NOT FOUND:", m.group(1)); problems += 1; out.append(body); continue
        pre = "//@ item x | - | y\n"
        its = parse_fragment(pre + body + "\n//@ end\n", a.fragment)
        A = normalise(its[0].exec); B = normalise(st)
        for t in A:
            t.start -= len(pre); t.end -= len(pre)
        edits = []
        def tree(toks):
            # list of elements: ('t', tok) or ('g', open_tok, children, close_tok)
            def parse(i, closer):
                out = []
                while i < len(toks):
                    t = toks[i]
                    if t.text in OPEN:
                        ch, j = parse(i + 1, OPEN[t.text])
                        out.append(("g", t, ch, toks[j])); i = j + 1
                    elif t.text in CLOSE:
                        return out, i
                    else:
                        out.append(("t", t)); i += 1
                return out, i
            return parse(0, None)[0]
        def key(el): return el[1].text
        def first_tok(el): return el[1]
        def last_tok(el): return el[1] if el[0] == "t" else el[3]
        def flat(el):
            if el[0] == "t": return [el[1].text]
            r = [el[1].text]
            for c in el[2]: r += flat(c)
            return r + [el[3].text]
        memo = {}
        def w(x, y):
            if x[0] != y[0] or key(x) != key(y): return 0
            if x[0] == "t": return 1
            k_ = (id(x), id(y))
            if k_ not in memo:
                memo[k_] = 1 + table(x[2], y[2])[0][0]
            return memo[k_]
        def table(X, Y):
            # dp[i][j] = best score aligning X[i:] with Y[j:]
            n_, m_ = len(X), len(Y)
            dp = [[0] * (m_ + 2) for _ in range(n_ + 2)]
            for i in range(n_ - 1, -1, -1):
                for j in range(m_ - 1, -1, -1):
                    best = max(dp[i+1][j], dp[i][j+1])
                    ww = w(X[i], Y[j])
                    if ww and dp[i+1][j+1] + ww >= best: best = dp[i+1][j+1] + ww
                    dp[i][j] = best
            return dp
        def align(X, Y, ctx):
            nonlocal problems
            dp = table(X, Y)
            i, j = 0, 0
            pairs = []
            while i < len(X) and j < len(Y):
                ww = w(X[i], Y[j])
                if ww and dp[i][j] == dp[i+1][j+1] + ww:
                    pairs.append((i, j)); i += 1; j += 1
                elif dp[i][j] == dp[i+1][j]: i += 1
                else: j += 1
            mx = {i_: j_ for i_, j_ in pairs}
            # slide insertion regions left so that they start where a statement/clause starts
            changed = True
            while changed:
                changed = False
                for i_ in range(1, len(X)):
                    if i_ not in mx and (i_ - 1) in mx:
                        # region starts at i_; find its end
                        e_ = i_
                        while e_ + 1 < len(X) and (e_ + 1) not in mx: e_ += 1
                        if X[e_][0] == "t" and X[i_-1][0] == "t" and key(X[e_]) == key(X[i_-1]) and (e_ + 1 == len(X) or True):
                            # rotate: X[i_-1] becomes inserted, X[e_] becomes the match
                            mx[e_] = mx.pop(i_ - 1); changed = True; break
            my = set(mx.values())
            miss = [y for j_, y in enumerate(Y) if j_ not in my]
            if miss:
                txt = " ".join(sum([flat(y) for y in miss], []))
                print("ERROR %s: repository tokens not found in fragment region: %s" % (name, txt[:300])); problems += 1
            i_ = 0
            while i_ < len(X):
                if i_ in mx:
                    if X[i_][0] == "g": align(X[i_][2], Y[mx[i_]][2], ctx)
                    i_ += 1
                else:
                    e_ = i_
                    while e_ + 1 < len(X) and (e_ + 1) not in mx: e_ += 1
                    edits.append((first_tok(X[i_]).start, last_tok(X[e_]).end, "ins", None))
                    i_ = e_ + 1
        align(tree(A), tree(B), name)
        nb = body
        for s, e, kind, orig in sorted(edits, reverse=True):
            if kind == "ins":
                nb = nb[:s] + "/*+*/" + nb[s:e] + "/*-*/" + nb[e:]
            else:
                nb = nb[:s] + "/*R:D? " + orig + " */" + nb[s:e] + "/*-*/" + nb[e:]
        out.append(nb)
    out.append(text[pos:])
    res = "".join(out)
    # merge adjacent insertion regions separated only by whitespace
    res = re.sub(r"/\*-\*/(\s*)/\*\+\*/", lambda mm: mm.group(1), res)
    open(a.out or a.fragment, "w").write(res)
    print("marked; %d problem(s)" % problems)

if __name__ == "__main__":
    main()
