#!/bin/bash
# usage: run_seeded_par.sh [-j N] [id ...]  - like run_seeded.sh, but N seeded changes at a time (default 3), each in its own scratch
# worktree of /repo HEAD, without the vacuity canaries (PGVERIF_NO_CANARY=1: they test the contracts, not the changed tree) and
# from a SNAPSHOT of /verif.  Results are merged into seeded/RESULTS.txt; nothing is ever applied to /repo itself.
# PGVERIF_SEEDED_DIR=harmless runs the stored BEHAVIOUR-PRESERVING changes instead (expected outcome: exit 0 or 2, never 1).
if [ "$1" = "--one" ]; then
  id=$2; S=$3; OUT=$4; T=$5
  DIR=${PGVERIF_SEEDED_DIR:-seeded}
  d=/verif/$DIR/$id; [ -f $d/patch.diff ] || exit 0
  W=$T/pgverif-seededp-wt.$id; E=$T/pgverif-seededp-ev.$id
  rm -rf "$W"; git -C /repo worktree prune
  git -C /repo worktree add -q --detach "$W" HEAD || exit 0
  mkdir -p "$E"
  prop=${id%%-*}
  props="$prop $(python3 -c "import json;print(' '.join(json.load(open('$d/meta.json')).get('also_check',[])))" 2>/dev/null | grep -v conda)"
  # behaviour-preserving changes (harmless/R-k): the properties to check are listed in meta.json
  if [ "$prop" = "R" ] || [ "$prop" = "S" ] || [ "$prop" = "T" ] || [ "$prop" = "V" ]; then props="$(python3 -c "import json;print(' '.join(json.load(open('$d/meta.json')).get('properties',[])))" 2>/dev/null | grep -v conda)"; fi
  if ! git -C "$W" apply $d/patch.diff 2>/dev/null; then echo "$id apply-failed (the stored patch no longer applies to /repo HEAD)" > "$OUT/$id.res"
  else
    : > "$OUT/$id.res"
    for p in $props; do
      PGVERIF_KANI_TARGET="$T/pgverif-seededp-kt.$id" PGVERIF_NO_CANARY=1 PGVERIF_REPO="$W" PGVERIF_EVIDENCE_DIR="$E" "$S"/check $p > "$E/$id.$p.log" 2>&1; rc=$?
      line=$(grep -m1 "VIOLATION\|UNDECIDED" "$E/$id.$p.log" | cut -c1-260)
      echo "$id check=$p rc=$rc $line" >> "$OUT/$id.res"
    done
  fi
  git -C /repo worktree remove --force "$W" 2>/dev/null; rm -rf "$E" "$T/pgverif-seededp-kt.$id"
  exit 0
fi
cd /verif || exit 2
J=3
if [ "$1" = "-j" ]; then J=$2; shift 2; fi
T=${TMPDIR:-/var/tmp}
S=$T/pgverif-seededp-snap.$$
mkdir -p "$S"
rsync -a --exclude .git --exclude evidence --exclude replay --exclude seeded /verif/ "$S"/
DIR=${PGVERIF_SEEDED_DIR:-seeded}
ids="$*"; [ -z "$ids" ] && ids=$(ls $DIR | grep -v RESULTS | sort)
OUT=$T/pgverif-seededp-out.$$; mkdir -p "$OUT"
for id in $ids; do echo $id; done | xargs -P $J -I{} bash /verif/tools/run_seeded_par.sh --one {} "$S" "$OUT" "$T"
for id in $ids; do
  [ -f "$OUT/$id.res" ] || continue
  if [ -f $DIR/RESULTS.txt ]; then grep -v "^$id " $DIR/RESULTS.txt > $DIR/RESULTS.txt.keep; mv $DIR/RESULTS.txt.keep $DIR/RESULTS.txt; fi
  cat "$OUT/$id.res" >> $DIR/RESULTS.txt
done
sort -o $DIR/RESULTS.txt $DIR/RESULTS.txt
git -C /repo worktree prune
rm -rf "$S" "$OUT"
