#!/usr/bin/env python3
"""
Unit assembly for contract-based verification of /repo with Verus.

A *unit* is a list of fragment files (units/frag/*.rs).  A fragment is Verus text in
which every piece of executable code that comes from /repo is delimited

    //@ item <file relative to /repo> | <container header or -> | <item name> [| props=C01,C02]
    ...real item text with spec text spliced in...
    //@ end

Inside an item region everything that is NOT repository text is marked:

    /*+*/ spec text /*-*/                     inserted specification text (requires/ensures/
                                              invariant/decreases clauses, proof blocks, ghost lets)
    /*R:<rule> original tokens */ new /*-*/   a catalogued rewrite; the original tokens are what
                                              the repository has, `new` is what Verus sees

On every run the assembler
  1. locates each item in the *current* working tree of /repo by path (file, container
     header, item name) - never by line number;
  2. tokenises both texts (comments dropped), normalises both sides with the mechanical
     rules N1..N5 below, and aligns them token by token;
  3. where the repository text differs from the fragment's copy (the tree was edited) the
     differing tokens are replaced by the repository's tokens, spec regions staying at their
     aligned positions (the same thing a textual 3-way merge does);
  4. audits the result: the generated text with all marked regions removed / reverted must be
     token-equal to the repository items.  Any failure here is exit 2 (undecided).

Mechanical normalisations (applied to both sides before comparison; the generated text
carries the fragment's spelling, which differs only by these rules):
  N1  attributes `#[..]`, `#![..]` dropped                     (DESIGN D1)
  N2  visibility `pub`, `pub(crate|super|self|in ..)` dropped  (DESIGN D4)
  N3  named return `-> (r: T)`  ==  `-> T`                     (Verus syntax for naming the result)
  N4  `debug_assert!(c, ..)` / `assert!(c, ..)` -> `assert(c)`; `*_eq!(a,b,..)` -> `assert(a == b)`;
      `*_ne!` -> `assert(a != b)`                              (DESIGN D2/D3, strengthening)
  N6  inside `trait_template! { .. }` (src/visit/macros.rs re-emits the wrapped trait verbatim) the markers
      `@section <ident>` and `@escape [..]` are dropped                      (DESIGN D7)
  N5  a trailing comma before `)`/`}`/`]` and a `;` after a block-like R region are not
      significant (token-level: `,` immediately before a closer or before `{` (where-clause) is dropped)
"""
import re, sys, os, json, difflib, hashlib

# --------------------------------------------------------------------------- tokenizer

class Tok:
    __slots__ = ("text", "start", "end", "kind", "region", "render", "trail")
    def __init__(self, text, start, end, kind="tok", region=None, render=None):
        self.text, self.start, self.end, self.kind, self.region, self.render = text, start, end, kind, region, render
        self.trail = None   # end offset of an insignificant trailing comma (N5) that goes when this token goes
    def __repr__(self):
        return "Tok(%r,%s)" % (self.text, self.kind)

IDENT = re.compile(r"[A-Za-z_][A-Za-z0-9_]*")
NUM = re.compile(r"[0-9][A-Za-z0-9_]*(\.[0-9][A-Za-z0-9_]*)?")

def tokenize(src, markers=False):
    """Return list of Tok.  Comments are dropped; when markers=True the marker comments
    are returned as tokens of kind 'ins', 'rep', 'endm', 'dir'."""
    out = []
    i, n = 0, len(src)
    while i < n:
        c = src[i]
        if c.isspace():
            i += 1; continue
        if src.startswith("//", i):
            j = src.find("\n", i)
            if j < 0: j = n
            if markers and src.startswith("//@", i):
                out.append(Tok(src[i+3:j].strip(), i, j, "dir"))
            i = j; continue
        if src.startswith("/*", i):
            # nested block comments
            depth, j = 1, i + 2
            while j < n and depth:
                if src.startswith("/*", j): depth += 1; j += 2
                elif src.startswith("*/", j): depth -= 1; j += 2
                else: j += 1
            body = src[i+2:j-2]
            if markers:
                if body == "+": out.append(Tok("", i, j, "ins"))
                elif body == "-": out.append(Tok("", i, j, "endm"))
                elif body.startswith("R:"): out.append(Tok(body[2:], i, j, "rep"))
            i = j; continue
        if c == '"':
            j = i + 1
            while j < n and src[j] != '"':
                j += 2 if src[j] == "\\" else 1
            out.append(Tok(src[i:j+1], i, j+1)); i = j + 1; continue
        if c == "r" and re.match(r'r#*"', src[i:i+8]):
            m = re.match(r'r(#*)"', src[i:])
            close = '"' + m.group(1)
            j = src.find(close, i + len(m.group(0)))
            j = n if j < 0 else j + len(close)
            out.append(Tok(src[i:j], i, j)); i = j; continue
        if c == "b" and i + 1 < n and src[i+1] in "'\"":
            # byte literal / byte string: handle as the plain form with a prefix
            q = src[i+1]; j = i + 2
            while j < n and src[j] != q:
                j += 2 if src[j] == "\\" else 1
            out.append(Tok(src[i:j+1], i, j+1)); i = j + 1; continue
        if c == "'":
            # char literal or lifetime
            m = re.match(r"'(\\.[^']*|[^'\\])'", src[i:])
            if m:
                out.append(Tok(m.group(0), i, i + len(m.group(0)))); i += len(m.group(0)); continue
            m = IDENT.match(src, i + 1)
            if m:
                out.append(Tok(src[i:m.end()], i, m.end())); i = m.end(); continue
        m = IDENT.match(src, i)
        if m:
            out.append(Tok(m.group(0), i, m.end())); i = m.end(); continue
        m = NUM.match(src, i)
        if m:
            out.append(Tok(m.group(0), i, m.end())); i = m.end(); continue
        for op in MULTI_OPS:
            if src.startswith(op, i):
                out.append(Tok(op, i, i + len(op))); i += len(op); break
        else:
            out.append(Tok(c, i, i + 1)); i += 1
    return out

MULTI_OPS = ["..=", "...", "::", "->", "=>", "==", "!=", "<=", ">=", "&&", "||", "+=", "-=", "*=", "/=", "%=", "^=", "&=", "|=", ".."]
OPEN = {"(": ")", "[": "]", "{": "}"}
CLOSE = {")", "]", "}"}

def match_close(toks, i):
    """toks[i] is an opener; return index of its closer."""
    depth = 0
    for j in range(i, len(toks)):
        t = toks[j].text
        if toks[j].kind != "tok": continue
        if t in OPEN: depth += 1
        elif t in CLOSE:
            depth -= 1
            if depth == 0: return j
    raise ValueError("unbalanced at %d" % toks[i].start)

# --------------------------------------------------------------------------- normalisation

ASSERT_MACROS = {"debug_assert": None, "assert": None,
                 "debug_assert_eq": "==", "assert_eq": "==",
                 "debug_assert_ne": "!=", "assert_ne": "!="}

def split_top_commas(toks):
    parts, cur, depth = [], [], 0
    for t in toks:
        if t.text in OPEN: depth += 1
        elif t.text in CLOSE: depth -= 1
        if t.text == "," and depth == 0:
            parts.append(cur); cur = []
        else:
            cur.append(t)
    if cur: parts.append(cur)
    return parts

def normalise(toks, stats=None):
    """Apply N1..N5 to a list of plain tokens; returns new list (tokens keep their spans;
    synthesised tokens get the span of the macro name)."""
    def bump(k):
        if stats is not None: stats[k] = stats.get(k, 0) + 1
    out = []
    i, n = 0, len(toks)
    while i < n:
        t = toks[i]
        tx = t.text
        # N1 attributes
        if tx == "#" and i + 1 < n and (toks[i+1].text == "[" or (toks[i+1].text == "!" and i + 2 < n and toks[i+2].text == "[")):
            j = i + 1 if toks[i+1].text == "[" else i + 2
            i = match_close(toks, j) + 1; bump("N1"); continue
        # N2 visibility
        if tx == "pub":
            if i + 2 < n and toks[i+1].text == "(" and toks[i+2].text in ("crate", "super", "self", "in"):
                i = match_close(toks, i + 1) + 1
            else:
                i += 1
            bump("N2"); continue
        # N3 named return
        if tx == "->" and i + 3 < n and toks[i+1].text == "(" and IDENT.fullmatch(toks[i+2].text) and toks[i+3].text == ":":
            j = match_close(toks, i + 1)
            out.append(t)
            out.extend(normalise(toks[i+4:j], stats))
            i = j + 1; bump("N3"); continue
        # N4 assertion macros -> ONE atomic token `assert ( cond )`; when the repository side has to be rendered for
        # Verus it becomes `{ let __c: bool = cond; assert(__c); }` (the condition is evaluated as exec code, then proved)
        def atomic(cond_toks, first, last):
            cond = normalise(cond_toks, stats)
            txt = "assert ( " + " ".join(x.text for x in cond) + " )"
            rend = "{ let __c: bool = " + " ".join(render_src(cond)) + "; assert(__c); }"
            return Tok(txt, first.start, last.end, "tok", first.region, rend)
        if tx in ASSERT_MACROS and i + 2 < n and toks[i+1].text == "!" and toks[i+2].text == "(":
            j = match_close(toks, i + 2)
            args = split_top_commas(toks[i+3:j])
            op = ASSERT_MACROS[tx]
            if op is None:
                cond = list(args[0])
            else:
                cond = list(args[0]) + [Tok(op, t.start, t.end, "tok", t.region)] + list(args[1])
            out.append(atomic(cond, t, toks[j]))
            i = j + 1; bump("N4"); continue
        if tx == "assert" and i + 1 < n and toks[i+1].text == "(":
            j = match_close(toks, i + 1)
            out.append(atomic(toks[i+2:j], t, toks[j]))
            i = j + 1; continue
        if tx == "{" and i + 6 < n and toks[i+1].text == "let" and toks[i+2].text == "__c" and toks[i+3].text == ":" and toks[i+4].text == "bool" and toks[i+5].text == "=":
            j = match_close(toks, i)
            k = i + 6
            while k < j and toks[k].text != ";":
                k = match_close(toks, k) + 1 if toks[k].text in OPEN else k + 1
            if [x.text for x in toks[k:j]] == [";", "assert", "(", "__c", ")", ";"]:
                out.append(atomic(toks[i+6:k], t, toks[j]))
                i = j + 1
                # a `;` directly after the block is part of the statement form of the macro
                continue
        # N6 trait_template markers
        if tx == "@" and i + 2 < n and toks[i+1].text == "section" and IDENT.fullmatch(toks[i+2].text):
            i += 3; bump("N6"); continue
        if tx == "@" and i + 2 < n and toks[i+1].text == "escape" and toks[i+2].text == "[":
            i = match_close(toks, i + 2) + 1; bump("N6"); continue
        # N5 trailing comma
        if tx == "," and i + 1 < n and (toks[i+1].text in CLOSE or toks[i+1].text == "{"):
            if out and out[-1].end <= t.start: out[-1].trail = t.end
            i += 1; continue
        out.append(t); i += 1
    return out

# --------------------------------------------------------------------------- source item lookup

def norm_header(s):
    toks = normalise([t for t in tokenize(s)])
    return " ".join(t.text for t in toks)

class SourceFile:
    def __init__(self, path, subst=()):
        self.path = path
        self.text = open(path, encoding="utf-8").read()
        # N7: one instantiation of a `macro_rules!` body: the macro parameter is replaced textually (`$graph_type` -> `DiGraph`)
        for k, v in subst:
            self.text = self.text.replace(k, v)
        self.toks = tokenize(self.text)
        self._index()

    def _index(self):
        """Index top-level items and items inside top-level impl/trait blocks (and inside
        one level of `mod`)."""
        self.items = []   # (container_header_norm or '-', name, i_start, i_end_exclusive)
        self._scan(0, len(self.toks), "-")

    def _scan(self, lo, hi, container):
        toks = self.toks
        i = lo
        while i < hi:
            start = i
            # skip attributes
            while i < hi and toks[i].text == "#":
                j = i + 1
                if toks[j].text == "!": j += 1
                i = match_close(toks, j) + 1
            # qualifiers
            j = i
            if j < hi and toks[j].text == "pub":
                j += 1
                if j < hi and toks[j].text == "(":
                    j = match_close(toks, j) + 1
            while j < hi and toks[j].text in ("unsafe", "const", "default", "async", "extern") and not (toks[j].text == "const" and j + 2 < hi and toks[j+2].text == ":"):
                j += 1
                if toks[j-1].text == "extern" and j < hi and toks[j].text.startswith('"'):
                    j += 1
            if j >= hi: break
            if toks[j].text == "trait_template" and j + 2 < hi and toks[j+1].text == "!" and toks[j+2].text == "{":
                # D7b: the macro re-emits the trait it wraps (minus @section/@escape markers, see N6)
                c = match_close(toks, j + 2)
                self._scan(j + 3, c, container)
                i = c + 1
                continue
            kw = toks[j].text
            if kw in ("fn", "struct", "enum", "trait", "impl", "mod", "type", "const", "static", "use", "macro_rules", "union"):
                # find end: first top-level `;` or `{...}` group
                k = j
                end = None
                body_open = None
                while k < hi:
                    tx = toks[k].text
                    if tx in ("(", "["):
                        k = match_close(toks, k) + 1; continue
                    if tx == "{":
                        body_open = k
                        end = match_close(toks, k) + 1; break
                    if tx == ";":
                        end = k + 1; break
                    k += 1
                if end is None: break
                if kw == "macro_rules":
                    name = "macro_rules " + toks[j+2].text
                elif kw == "impl":
                    name = "impl"
                elif kw == "use":
                    name = "use"
                else:
                    name = kw + " " + toks[j+1].text
                if kw in ("struct",) and end < hi and toks[end-1].text == ")" :
                    pass
                # tuple struct `struct X(..);` handled by ';' rule
                hdr = None
                if kw in ("impl", "trait", "mod") and body_open is not None:
                    hdr = " ".join(t.text for t in normalise(toks[j:body_open + 1])[:-1])
                    if kw == "impl": name = hdr
                self.items.append((container, name, start, end, hdr))
                if kw in ("impl", "trait") and hdr is not None and (container == "-" or container.startswith("macro_rules ")):
                    self._scan(body_open + 1, end - 1, hdr)
                if kw == "macro_rules" and body_open is not None and container == "-":
                    # D7: the items a macro_rules! arm emits: `( pattern ) => { items }` (used with N7 substitution)
                    k = body_open + 1
                    while k < end - 1:
                        if toks[k].text in OPEN:
                            c = match_close(toks, k)
                            if toks[k].text == "{" and k >= 2 and toks[k-1].text == ">" and toks[k-2].text == "=":
                                self._scan(k + 1, c, name)
                            elif toks[k].text == "{" and k >= 1 and toks[k-1].text == "=>":
                                self._scan(k + 1, c, name)
                            k = c + 1
                        else:
                            k += 1
                i = end
            else:
                # something else (macro invocation etc.): skip one token tree
                if toks[j].text in OPEN:
                    i = match_close(toks, j) + 1
                else:
                    i = j + 1
        return

    def find_span(self, container, name, occurrence=0):
        c = "-" if container.strip() == "-" else norm_header(container)
        nm = norm_header(name) if name.startswith("impl") else " ".join(name.split())
        hits = [(s, e, h) for (cc, nn, s, e, h) in self.items if cc == c and nn == nm]
        if len(hits) <= occurrence:
            return None
        return hits[occurrence]

    def find(self, container, name, occurrence=0):
        sp = self.find_span(container, name, occurrence)
        if sp is None:
            return None
        return self.toks[sp[0]:sp[1]]

    def with_provided(self, container, name, occurrence, provided, get_source):
        """D32: the tokens of an `impl Trait for T` item in which every listed provided trait method that the impl does not
        define itself is written out with the trait's provided body (what the compiler uses for this implementor), placed
        where the trait declares it relative to the methods the impl does define.  Returns (tokens, [materialised fn names])."""
        sp = self.find_span(container, name, occurrence)
        if sp is None:
            return None, []
        s, e, hdr = sp
        inner = sorted([(st, en, nn) for (cc, nn, st, en, h) in self.items if cc == hdr and s <= st and en <= e and nn.startswith("fn ")])
        have = set(nn for (_, _, nn) in inner)
        inserts = []   # (token position, tokens)
        done = []
        for (rel, trait, fname) in provided:
            if "fn " + fname in have:
                continue
            tsf = get_source(rel)
            tsp = tsf.find_span("-", trait)
            if tsp is None:
                raise AssemblyError("lost anchor: %s not found in %s (provided-method rule D32)" % (trait, rel))
            ts, te, thdr = tsp
            tfns = sorted([(st, en, nn) for (cc, nn, st, en, h) in tsf.items if cc == thdr and ts <= st and en <= te and nn.startswith("fn ")])
            order = [nn for (_, _, nn) in tfns]
            if "fn " + fname not in order:
                raise AssemblyError("lost anchor: fn %s not found in %s of %s (provided-method rule D32)" % (fname, trait, rel))
            k = order.index("fn " + fname)
            body = tsf.toks[tfns[k][0]:tfns[k][1]]
            if body[-1].text != "}":
                raise AssemblyError("the impl `%s` lacks `fn %s` and %s declares no provided body for it" % (name, fname, trait))
            later = set(order[k + 1:])
            pos = e - 1
            for (st, en, nn) in inner:
                if nn in later:
                    pos = st; break
            inserts.append((pos, body)); done.append(fname)
        toks = []
        cur = s
        for (pos, body) in sorted(inserts, key=lambda x: x[0]):
            toks += self.toks[cur:pos] + body
            cur = pos
        toks += self.toks[cur:e]
        return toks, done

# --------------------------------------------------------------------------- fragment parsing

class Item:
    def __init__(self, relpath, container, name, props, occurrence, subst=(), provided=(), serde=None):
        self.relpath, self.container, self.name, self.props, self.occurrence, self.subst = relpath, container, name, props, occurrence, tuple(subst)
        self.serde = serde        # hash of the item's #[serde(..)] attributes the contract was written against (audited)
        self.provided = tuple(provided)   # D32: (relpath, trait name, fn name) of provided trait methods to materialise when the impl lacks them
        self.exec = []        # exec tokens (Tok; for R-originals region=(rs,re,rule))
        self.span = None      # (start,end) char span of item body in fragment text
        self.rewrites = []    # (rule, orig_text)
        self.ins_regions = [] # (start,end) char spans of /*+*/../*-*/ and of R regions
        self.drift = False

class AssemblyError(Exception):
    pass

PINS = {}
# second-stage merge heuristics for structural repository changes (moved blocks, orphaned loop specs, proof blocks after a tail
# expression): OFF for the first attempt; check.py switches them on only when the plain merge does not compile, and then accepts a
# full pass only (any failure is 'undecided': the placement of proof text is uncertain after such a merge)
STRUCTURAL = False

def pin_sig(toks):
    import hashlib
    return hashlib.sha1(" ".join(t.text for t in normalise(toks)).encode()).hexdigest()[:10]

def parse_fragment(text, fname):
    PINS.pop(fname, None)
    toks = tokenize(text, markers=True)
    items = []
    cur = None
    i = 0
    n = len(toks)
    while i < n:
        t = toks[i]
        if t.kind == "dir":
            parts = [p.strip() for p in t.text.split("|")]
            head = parts[0].split(None, 1)
            if head[0] == "item":
                if cur is not None:
                    raise AssemblyError("%s: nested //@ item at offset %d" % (fname, t.start))
                props, occ, subst, provided, serde = None, 0, [], [], None
                for p in parts[3:]:
                    if p.startswith("serde="): serde = p[6:].strip()
                    if p.startswith("provided="):
                        for spec_ in p[9:].split(","):
                            rel_, tr_, fn_ = [x.strip() for x in spec_.split(":")]
                            provided.append((rel_, tr_, fn_))
                    if p.startswith("props="): props = p[6:].split(",")
                    if p.startswith("occ="): occ = int(p[4:])
                    if p.startswith("subst="):
                        for kv in p[6:].split(","):
                            k_, v_ = kv.split(":", 1); subst.append((k_.strip(), v_.strip()))
                cur = Item(head[1].strip(), parts[1], parts[2], props, occ, subst, provided, serde)
                cur.span = [t.end, None]
            elif head[0] == "pin":
                # `//@ pin <file> | <container> | <name> | <hash>`: an item of the repository that is NOT part of the verified text (it is
                # outside the verifier's subset) but whose behaviour a stated assumption was read off; audited by hash
                PINS.setdefault(fname, []).append((head[1].strip(), parts[1], parts[2], parts[3] if len(parts) > 3 else ""))
            elif head[0] == "end":
                if cur is None:
                    raise AssemblyError("%s: //@ end without item" % fname)
                cur.span[1] = t.start
                items.append(cur); cur = None
            i += 1; continue
        if cur is None:
            i += 1; continue
        if t.kind == "ins":
            j = i + 1
            while j < n and toks[j].kind != "endm":
                if toks[j].kind in ("ins", "rep", "dir"):
                    raise AssemblyError("%s: marker inside /*+*/ region at offset %d" % (fname, toks[j].start))
                j += 1
            if j >= n: raise AssemblyError("%s: unterminated /*+*/ at %d" % (fname, t.start))
            cur.ins_regions.append((t.start, toks[j].end))
            i = j + 1; continue
        if t.kind == "rep":
            j = i + 1
            while j < n and toks[j].kind != "endm":
                if toks[j].kind in ("ins", "rep", "dir"):
                    raise AssemblyError("%s: marker inside /*R*/ region at offset %d" % (fname, toks[j].start))
                j += 1
            if j >= n: raise AssemblyError("%s: unterminated /*R*/ at %d" % (fname, t.start))
            m = re.match(r"(\S+)\s*(.*)\Z", t.text, re.S)
            rule, orig = m.group(1), m.group(2)
            region = (t.start, toks[j].end, rule)
            for ot in tokenize(orig):
                cur.exec.append(Tok(ot.text, t.start, toks[j].end, "tok", region))
            cur.rewrites.append((rule, " ".join(orig.split())))
            cur.ins_regions.append((t.start, toks[j].end))
            i = j + 1; continue
        if t.kind == "endm":
            raise AssemblyError("%s: stray /*-*/ at %d" % (fname, t.start))
        cur.exec.append(t)
        i += 1
    if cur is not None:
        raise AssemblyError("%s: unterminated //@ item %s" % (fname, cur.name))
    return items

# --------------------------------------------------------------------------- assembly

def trusted_bodies(text):
    """(fn name, body start, body end) for every function in the fragment text that carries #[verifier::external_body]"""
    toks = tokenize(text)
    out = []
    i, n = 0, len(toks)
    while i + 6 < n:
        if (toks[i].text == "#" and toks[i+1].text == "[" and toks[i+2].text == "verifier" and toks[i+3].text == "::"
                and toks[i+4].text == "external_body" and toks[i+5].text == "]"):
            # a trusted trait-impl method whose SAME body is proved elsewhere under a precondition (D17 twin, marked by a
            # `D17-twin:` comment right above the attribute) may change: the twin receives the same change and is verified
            # (likewise `Kani-twin:`: the real body is checked by a Kani harness that is built from /repo's working tree on every run)
            head_ = text[max(0, toks[i].start - 400):toks[i].start].rsplit("}", 1)[-1]
            if "D17-twin:" in head_ or "Kani-twin:" in head_:
                i += 6; continue
            j = i + 6
            # skip further attributes / qualifiers up to `fn`; stop at struct/enum/trait/impl (external_body on a type is not a function)
            while j < n and toks[j].text not in ("fn", "struct", "enum", "trait", "impl", "type"):
                if toks[j].text in ("[", "("): j = match_close(toks, j)
                j += 1
            if j < n and toks[j].text == "fn":
                name = toks[j+1].text if j + 1 < n else "?"
                k = j
                while k < n and toks[k].text not in ("{", ";"):
                    if toks[k].text in ("(", "["): k = match_close(toks, k)
                    k += 1
                if k < n and toks[k].text == "{":
                    c = match_close(toks, k)
                    out.append((name, toks[k].start, toks[c].end))
            i = j
        i += 1
    return out

def assemble_fragment(text, fname, repo, stats, srcs):
    """Return (generated_text, items, report)."""
    items = parse_fragment(text, fname)
    edits = []   # (start, end, replacement) on fragment text
    report = []
    for it in items:
        p = os.path.join(repo, it.relpath)
        if (it.relpath, it.subst) not in srcs:
            if not os.path.exists(p):
                raise AssemblyError("lost anchor: file %s missing" % it.relpath)
            srcs[(it.relpath, it.subst)] = SourceFile(p, it.subst)
        sf = srcs[(it.relpath, it.subst)]
        if it.provided:
            def get_source(rel, _subst=it.subst):
                if (rel, ()) not in srcs:
                    srcs[(rel, ())] = SourceFile(os.path.join(repo, rel), ())
                return srcs[(rel, ())]
            stoks, mat = sf.with_provided(it.container, it.name, it.occurrence, it.provided, get_source)
            if mat:
                stats.setdefault("provided_methods_materialised", [])
                stats["provided_methods_materialised"] += ["%s::%s" % (it.name, f_) for f_ in mat]
        else:
            stoks = sf.find(it.container, it.name, it.occurrence)
        if stoks is None:
            raise AssemblyError("lost anchor: %s | %s | %s not found in %s" % (it.relpath, it.container, it.name, it.relpath))
        a = normalise(it.exec, stats)
        b = normalise(stoks, stats)
        at = [t.text for t in a]
        bt = [t.text for t in b]
        stats["items"] = stats.get("items", 0) + 1
        stats["tokens_compared"] = stats.get("tokens_compared", 0) + len(bt)
        line = sf.text.count("\n", 0, stoks[0].start) + 1
        it.src_line = line
        if at == bt:
            continue
        it.drift = True
        it.old_text, it.new_text = " ".join(at), " ".join(bt)   # the whole item before / after the repository change (check.py: control-flow skeletons)
        sm = difflib.SequenceMatcher(None, at, bt, autojunk=False)
        opcodes = widen_over_rewrites(sm.get_opcodes(), a, at, report, it)
        opcodes = retarget_closing_braces(opcodes, at)
        # MOVED BLOCKS: a run of tokens the repository deleted in one place and inserted unchanged in another (the branches of an
        # `if` exchanged, a statement moved) is relocated as fragment TEXT, so that the spec text spliced inside it moves along
        opcodes, links = split_moves(opcodes, at, bt, a) if STRUCTURAL else (opcodes, {})
        moved_text = {}
        used = set()
        for xi, xd in links.items():
            _, i1d, i2d, _, _ = opcodes[xd]
            lo = min(t.start for t in a[i1d:i2d]); hi = max((t.trail if (t.trail is not None and t.trail > t.end) else t.end) for t in a[i1d:i2d])
            moved_text[xi] = text[lo:hi]
            edits.append((lo, hi, " "))
            used.add(xd)
            report.append((it, "moved", " ".join(at[i1d:i2d])[:160], "(same tokens, new place)"))
        for xo, (op, i1, i2, j1, j2) in enumerate(opcodes):
            if op == "equal": continue
            if xo in used: continue            # the source of a move: already cut as one span
            new = moved_text[xo] if xo in moved_text else " ".join(render_src(b[j1:j2]))
            if op == "delete":
                # a deletion is only determined up to rotation (`X Y X` minus `Y X` == minus `X Y`): prefer the placement
                # that does not cut through a rewritten region
                def partial(lo, hi):
                    for reg in set(t.region for t in a[lo:hi] if t.region is not None):
                        if sum(1 for t in a[lo:hi] if t.region == reg) != sum(1 for t in a if t.region == reg): return True
                    return False
                if partial(i1, i2):
                    n_ = i2 - i1
                    for k_ in range(1, n_ + 1):
                        if i1 - k_ >= 0 and at[i1 - k_:i1] == at[i2 - k_:i2] and not partial(i1 - k_, i2 - k_):
                            i1, i2 = i1 - k_, i2 - k_; break
                        if i2 + k_ <= len(at) and at[i1:i1 + k_] == at[i2:i2 + k_] and not partial(i1 + k_, i2 + k_):
                            i1, i2 = i1 + k_, i2 + k_; break
            if op in ("replace", "delete"):
                # a rewritten (R) region may disappear as a whole; a partial overlap is a conflict
                for reg in set(t.region for t in a[i1:i2] if t.region is not None):
                    total = sum(1 for t in a if t.region == reg)
                    inside = sum(1 for t in a[i1:i2] if t.region == reg)
                    if inside != total:
                        raise AssemblyError("conflict: repository change inside a rewritten region (%s) of %s::%s" % (
                            reg[2], it.container, it.name))
                # remove each token individually, put replacement at the first
                first = True
                done = set()
                for t in a[i1:i2]:
                    if (t.start, t.end) in done: continue
                    done.add((t.start, t.end))
                    edits.append((t.start, t.trail if (t.trail is not None and t.trail > t.end) else t.end, (" " + new + " ") if first else ""))
                    first = False
            elif op == "insert-at":
                t0 = a[i1]
                pos = t0.start
                edits.append((pos, pos, " " + new + " "))
            else:  # insert
                if i1 > 0:
                    prev = a[i1 - 1]
                    if prev.region is not None and i1 < len(a) and a[i1].region is not None and a[i1].region == prev.region:
                        raise AssemblyError("conflict: repository insertion inside a rewritten region of %s::%s" % (it.container, it.name))
                    pos = prev.end
                else:
                    pos = a[0].start if a else it.span[0]
                    if i1 == 0 and a:
                        edits.append((pos, pos, " " + new + " "));
                        report.append((it, op, " ".join(at[i1:i2]), " ".join(bt[j1:j2])))
                        continue
                edits.append((pos, pos, " " + new + " "))
            report.append((it, op, " ".join(at[i1:i2]), " ".join(bt[j1:j2])))
    # a repository change inside the BODY of a function that is trusted here (external_body, body kept verbatim) must not be
    # merged silently: the trust was given to the text that was read, not to whatever replaces it
    if edits:
        for (name, lo, hi) in trusted_bodies(text):
            for (s_, e_, r_) in edits:
                if lo <= s_ < hi or lo < e_ <= hi:
                    raise AssemblyError("conflict: repository change inside the body of the trusted (external_body) function `%s` in %s - "
                                        "trusted code changed, re-examine the assumption" % (name, os.path.basename(fname)))
    # apply edits back to front
    out = text
    # (several insertions at one position keep the order in which they were recorded)
    for (_q, (s, e, r)) in sorted(enumerate(edits), key=lambda x: (x[1][0], x[1][1], x[0]), reverse=True):
        out = out[:s] + r + out[e:]
    if edits:
        if STRUCTURAL:
            out = drop_orphaned_loop_specs(out, report, items)
            out = rehome_tail_proofs(out, report, items)
    return out, items, report

def rehome_tail_proofs(out, report, items):
    """When the repository moved statements so that a spliced `proof { .. }` block now follows the block's TAIL EXPRESSION
    (`.. ; EXPR /*+*/proof {..}/*-*/ }` - a syntax error), bind the tail first: `let __tail = EXPR; proof {..} __tail`.
    Executable meaning is unchanged; the proof block keeps its place after the code it followed."""
    toks = tokenize(out, markers=True)
    n = len(toks)
    inside = [False] * n
    k = 0
    while k < n:
        if toks[k].kind == "ins":      # (the replacement text of an R region is executable text and counts)
            j = k
            while j < n and toks[j].kind != "endm": j += 1
            for q in range(k, min(j + 1, n)): inside[q] = True
            k = j + 1
        else:
            k += 1
    fixes = []
    for i, t in enumerate(toks):
        if t.kind != "ins" or i + 1 >= n or toks[i + 1].text != "proof":
            continue
        e = i
        while e < n and toks[e].kind != "endm": e += 1
        if e >= n: continue
        # next exec token after the region
        q = e + 1
        while q < n and (inside[q] or toks[q].kind != "tok"): q += 1
        if q >= n or toks[q].text != "}":
            continue
        # previous exec token before the region
        pidx = i - 1
        while pidx >= 0 and (inside[pidx] or toks[pidx].kind != "tok"): pidx -= 1
        if pidx < 0 or toks[pidx].text in (";", "{", "}"):
            continue
        # start of the tail expression: after the previous `;` / `{` / `}` at depth 0
        j = pidx; depth = 0; start = None
        while j >= 0:
            x = toks[j]
            if inside[j] or x.kind != "tok":
                j -= 1; continue
            if x.text in (")", "]", "}"):
                depth += 1
            elif x.text in ("(", "[", "{"):
                if depth == 0:
                    start = j + 1; break
                depth -= 1
            elif x.text == ";" and depth == 0:
                start = j + 1; break
            j -= 1
        if start is None: continue
        while start < n and (inside[start] or toks[start].kind != "tok"): start += 1
        # never splice markers into a rewritten (R) region
        rep_spans = []
        for q2, t2 in enumerate(toks):
            if t2.kind == "rep":
                j2 = q2
                while j2 < n and toks[j2].kind != "endm": j2 += 1
                if j2 < n: rep_spans.append((t2.start, toks[j2].end))
        if any(rs < p_ < re_ for (rs, re_) in rep_spans for p_ in (toks[start].start, toks[pidx].end, toks[e].end)):
            continue
        fixes.append((toks[start].start, toks[pidx].end, toks[e].end))
        report.append((items[0] if items else Item("", "-", "?", None, 0), "tail-proof-rehomed", "a proof block followed the tail expression after the merge", out[toks[start].start:toks[pidx].end][:120]))
    for (a, b, c) in sorted(fixes, reverse=True):
        out = out[:a] + "/*+*/let __tail = /*-*/" + out[a:b] + "/*+*/;/*-*/ " + out[b:c] + " /*+*/__tail/*-*/ " + out[c:]
    return out

def drop_orphaned_loop_specs(out, report, items):
    """When the repository turned a loop into something else (`while c { .. }` -> `if c { .. }`), the loop invariant spliced after
    the loop header has no loop left: drop that spec region (the function's contract stays, and the verifier decides about the new body)."""
    toks = tokenize(out, markers=True)
    drops = []
    n = len(toks)
    for i, t in enumerate(toks):
        if t.kind != "ins" or i + 1 >= n or toks[i + 1].text not in ("invariant", "invariant_except_break"):
            continue
        j = i - 1; depth = 0; head = None
        while j >= 0:
            x = toks[j]
            if x.kind != "tok":
                j -= 1; continue
            if x.text in (")", "]"): depth += 1
            elif x.text in ("(", "["):
                if depth == 0: break
                depth -= 1
            elif depth == 0 and x.text in ("while", "loop", "for", "if", "else", "match", "{", "}", ";"):
                head = x.text; break
            j -= 1
        if head in ("while", "loop", "for") or head is None:
            continue
        k = i + 1
        while k < n and toks[k].kind != "endm": k += 1
        if k < n:
            drops.append((t.start, toks[k].end))
            report.append((items[0] if items else Item("", "-", "?", None, 0), "loop-spec-dropped", "the loop this invariant belonged to is now `%s`" % head, out[t.start:toks[k].end][:120]))
    for (a, b) in sorted(drops, reverse=True):
        out = out[:a] + out[b:]
    return out

def split_moves(opcodes, at, bt, a, min_len=6, rounds=3):
    """Find runs of >= min_len tokens that one non-equal opcode removes from the fragment and another one adds to it unchanged,
    and split the opcodes so that each such run is its own (delete, insert) pair.  Returns (opcodes, {insert index: delete index})."""
    ops = [list(o) for o in opcodes]
    pairs = []   # (delete op object, insert op object)
    for _ in range(rounds):
        best = None
        for x, (opx, i1, i2, j1, j2) in enumerate(ops):
            if opx not in ("delete", "replace") or i2 - i1 < min_len: continue
            for y, (opy, k1, k2, l1, l2) in enumerate(ops):
                if y == x or opy not in ("insert", "replace") or l2 - l1 < min_len: continue
                if any(ops[x] is d_ or ops[y] is i_ for (d_, i_) in pairs): continue
                m = difflib.SequenceMatcher(None, at[i1:i2], bt[l1:l2], autojunk=False).find_longest_match(0, i2 - i1, 0, l2 - l1)
                if m.size >= min_len and (best is None or m.size > best[0]):
                    best = (m.size, x, y, i1 + m.a, l1 + m.b)
        if best is None: break
        size, x, y, ca, cb = best
        # no rewritten region may be cut by the moved run
        regs = set(t.region for t in a[ca:ca + size] if t.region is not None)
        if any(sum(1 for t in a[ca:ca + size] if t.region == rg) != sum(1 for t in a if t.region == rg) for rg in regs):
            break
        opx, i1, i2, j1, j2 = ops[x]
        opy, k1, k2, l1, l2 = ops[y]
        # split x: [i1,ca) stays as it was (with x's own replacement, if any), [ca,ca+size) is the move source, [ca+size,i2) a plain delete
        src = ["delete", ca, ca + size, j2, j2]
        newx = []
        # (what the opcode put in place of the removed tokens stays where the first removed token stood: "insert-at")
        if ca > i1 or j2 > j1: newx.append([opx if j2 > j1 and ca > i1 else ("delete" if ca > i1 else "insert-at"), i1, ca, j1, j2])
        newx.append(src)
        if ca + size < i2: newx.append(["delete", ca + size, i2, j2, j2])
        # split y: the inserted run [cb,cb+size) is the move destination
        dst = ["insert", k2, k2, cb, cb + size]
        newy = []
        if cb > l1 or k2 > k1: newy.append([opy if k2 > k1 and cb > l1 else ("insert" if cb > l1 else "delete"), k1, k2, l1, cb])
        newy.append(dst)
        if cb + size < l2: newy.append(["insert", k2, k2, cb + size, l2])
        objx, objy = ops[x], ops[y]
        out = []
        for o in ops:
            if o is objx: out += newx
            elif o is objy: out += newy
            else: out.append(o)
        ops = out
        pairs.append((src, dst))
    links = {}
    for (src, dst) in pairs:
        xi = next(k for k, o in enumerate(ops) if o is dst); xd = next(k for k, o in enumerate(ops) if o is src)
        links[xi] = xd
    return [tuple(o) for o in ops], links

def retarget_closing_braces(opcodes, at):
    """A deleted `}` inside a run `} } }` is only determined up to position.  When the repository removed a block's opening brace
    (`if c { S }` -> `S`), delete the closing brace that MATCHES it in the fragment, so that spec text spliced after the other
    braces stays where it belongs.  The resulting token sequence is identical; only which physical `}` goes is decided here."""
    # matching over the fragment's exec tokens
    match = {}
    stack = []
    for k, t in enumerate(at):
        if t == "{": stack.append(k)
        elif t == "}" and stack: match[k] = stack.pop()
    gone_open = set()
    for op, i1, i2, j1, j2 in opcodes:
        if op == "delete":
            gone_open |= {k for k in range(i1, i2) if at[k] == "{"}
    if not gone_open:
        return opcodes
    out = []
    for (op, i1, i2, j1, j2) in opcodes:
        if op == "delete" and all(at[k] == "}" for k in range(i1, i2)):
            r1, r2 = i1, i2
            while r1 > 0 and at[r1 - 1] == "}": r1 -= 1
            while r2 < len(at) and at[r2] == "}": r2 += 1
            # is the whole run otherwise untouched (equal)?
            others_deleted = any(o == "delete" and not (a1 == i1 and a2 == i2) and a1 < r2 and a2 > r1 for (o, a1, a2, _, _) in opcodes)
            wanted = [k for k in range(r1, r2) if match.get(k) in gone_open]
            if not others_deleted and len(wanted) == i2 - i1 and wanted != list(range(i1, i2)):
                for k in wanted:
                    out.append(("delete", k, k + 1, j1, j1))
                continue
        out.append((op, i1, i2, j1, j2))
    return out

def widen_over_rewrites(opcodes, a, at, report, it):
    """A repository change that cuts into a rewritten (R) region is widened to cover the whole region: the rewrite is then
    dropped and the repository's own text is used in its place.  If that text is outside the verifier's subset the unit does
    not compile (exit 2, as before); if it is inside, the change is verified instead of being a conflict."""
    ops = [list(o) for o in opcodes]
    def rotate_ok(op, i1, i2):
        # pure deletions may be slid (handled by the caller); do not widen those that can be slid off the region
        return False
    changed = True
    guard = 0
    while changed and guard < 50:
        changed = False; guard += 1
        for idx, (op, i1, i2, j1, j2) in enumerate(ops):
            if op == "equal": continue
            regs = set(t.region for t in a[i1:i2] if t.region is not None)
            if op == "insert" and 0 < i1 < len(a) and a[i1 - 1].region is not None and a[i1].region == a[i1 - 1].region:
                regs.add(a[i1].region)
            for reg in regs:
                idxs = [q for q, t in enumerate(a) if t.region == reg]
                R1, R2 = idxs[0], idxs[-1] + 1
                if i1 <= R1 and R2 <= i2: continue      # whole region inside: fine
                if op == "delete":
                    # try the rotations first (see the caller)
                    n_ = i2 - i1; ok = False
                    for k_ in range(1, n_ + 1):
                        for (x1, x2) in ((i1 - k_, i2 - k_), (i1 + k_, i2 + k_)):
                            if x1 < 0 or x2 > len(at): continue
                            same = at[x1:i1] == at[x2:i2] if x1 < i1 else at[i1:x1] == at[i2:x2]
                            if same and not any(t.region == reg for t in a[x1:x2] ) or (same and x1 <= R1 and R2 <= x2):
                                ok = True
                    if ok: continue
                A1, A2 = min(i1, R1), max(i2, R2)
                # widen over every opcode that intersects [A1, A2)
                lo = idx
                while lo > 0 and ops[lo][1] > A1: lo -= 1
                hi = idx
                while hi + 1 < len(ops) and ops[hi][2] < A2: hi += 1
                first, last = ops[lo], ops[hi]
                pre = post = None
                B1, B2 = first[3], last[4]
                if first[0] == "equal" and first[1] < A1:
                    cut = A1 - first[1]
                    pre = ["equal", first[1], A1, first[3], first[3] + cut]; B1 = first[3] + cut
                else:
                    A1 = first[1]
                if last[0] == "equal" and last[2] > A2:
                    cut = A2 - last[1]
                    post = ["equal", A2, last[2], last[3] + cut, last[4]]; B2 = last[3] + cut
                else:
                    A2 = last[2]
                merged = ["replace", A1, A2, B1, B2]
                ops[lo:hi + 1] = [o for o in (pre, merged, post) if o is not None]
                report.append((it, "rewrite-dropped", "%s region: repository text used instead" % reg[2], " ".join(at[A1:A2])[:200]))
                changed = True
                break
            if changed: break
    return [tuple(o) for o in ops]

def render_src(toks):
    """Render normalised source tokens as text (N4 groups were synthesised as tokens)."""
    res = []
    for t in toks:
        res.append(t.text)
    # glue multi-char operators back: tokens that were adjacent in the source stay adjacent
    out = []
    prev = None
    for t in toks:
        txt = t.render if t.render is not None else t.text
        if prev is not None and prev.end == t.start and prev.kind == "tok" and not (prev.start == t.start) and t.render is None and prev.render is None:
            out[-1] = out[-1] + txt
        else:
            out.append(txt)
        prev = t
    return out

def derive_set(toks):
    """the traits named in `#[derive(..)]` attributes among toks (N1 drops attributes from the comparison, so the derive
    lists are audited separately: a derive changes which code runs)"""
    out = set()
    i, n = 0, len(toks)
    while i + 3 < n:
        if toks[i].text == "#" and toks[i+1].text == "[" and toks[i+2].text == "derive" and toks[i+3].text == "(":
            c = match_close(toks, i + 3)
            out |= {t.text for t in toks[i+4:c] if IDENT.fullmatch(t.text)}
            i = c
        i += 1
    return out

def serde_sig(toks):
    """a short hash of all `#[serde(..)]` attributes among toks (item-level and field-level, in order): they select the
    deserialiser helpers whose guarantees the trait-level preconditions (FromDeserialized::input_ok) assume"""
    import hashlib
    out = []
    i, n = 0, len(toks)
    while i + 3 < n:
        if toks[i].text == "#" and toks[i+1].text == "[" and toks[i+2].text == "serde" and toks[i+3].text == "(":
            c = match_close(toks, i + 1)
            out.append(" ".join(t.text for t in toks[i:c+1]))
            i = c
        i += 1
    return hashlib.sha1("\n".join(out).encode()).hexdigest()[:10] if out else None

DERIVES_NOT_CARRIED = {"Debug", "Serialize", "Deserialize"}   # formatting / serde output: never on a verified path (D1)

def audit_fragment(gen_text, fname, repo, srcs, stats=None):
    """Re-parse the generated text; every item must now be token-equal to the repository."""
    items = parse_fragment(gen_text, fname)
    n = 0
    for it in items:
        sf = srcs[(it.relpath, it.subst)]
        if it.provided:
            stoks, _ = sf.with_provided(it.container, it.name, it.occurrence, it.provided, lambda rel: srcs[(rel, ())])
        else:
            stoks = sf.find(it.container, it.name, it.occurrence)
        if it.name.startswith(("struct ", "enum ")):
            fa, ra = derive_set(it.exec), derive_set(stoks)
            if fa - ra - DERIVES_NOT_CARRIED:
                raise AssemblyError("audit mismatch in %s: the fragment derives %s, the repository does not" % (it.name, sorted(fa - ra - DERIVES_NOT_CARRIED)))
            sg = serde_sig(stoks)
            if it.serde is not None and sg != it.serde:
                raise AssemblyError("conflict: the #[serde(..)] attributes of %s changed (%s -> %s): they name the deserialiser helpers whose guarantees the "
                                    "contracts assume - re-examine the assumption" % (it.name, it.serde, sg))
            if it.serde is None and sg is not None and stats is not None:
                stats.setdefault("serde_attrs_not_pinned", []).append(it.name)
            missing = ra - fa - DERIVES_NOT_CARRIED
            if missing and stats is not None:
                stats.setdefault("derives_not_carried", []).append("%s: %s" % (it.name, ",".join(sorted(missing))))
        a = [t.text for t in normalise(it.exec)]
        b = [t.text for t in normalise(stoks)]
        if a != b:
            sm = difflib.SequenceMatcher(None, a, b, autojunk=False)
            diffs = [(op, " ".join(a[i1:i2]), " ".join(b[j1:j2])) for op, i1, i2, j1, j2 in sm.get_opcodes() if op != "equal"]
            raise AssemblyError("audit mismatch in %s::%s: %s" % (it.container, it.name, diffs[:3]))
        n += len(b)
    for (rel, cont, name, h) in PINS.get(fname, []):
        if (rel, ()) not in srcs:
            pth = os.path.join(repo, rel)
            if not os.path.exists(pth):
                raise AssemblyError("lost anchor: pinned file %s missing" % rel)
            srcs[(rel, ())] = SourceFile(pth, ())
        ptoks = srcs[(rel, ())].find(cont, name)
        if ptoks is None:
            raise AssemblyError("lost anchor: pinned item %s | %s | %s not found" % (rel, cont, name))
        sg = pin_sig(ptoks)
        if sg != h:
            raise AssemblyError("conflict: the pinned item `%s` of %s changed (%s -> %s): a stated assumption was read off its text - re-examine the assumption" % (name, rel, h or "-", sg))
        if stats is not None:
            stats["pinned_items"] = stats.get("pinned_items", 0) + 1
    return n

def assemble_unit(fragments, repo, outpath=None):
    """fragments: list of paths.  Returns dict(text, items, drift_report, stats, linemap)."""
    stats, srcs = {}, {}
    texts, all_items, reports = [], [], []
    audited = 0
    linemap = []   # (first generated line, last generated line, fragment path, item or None)
    for fp in fragments:
        text = open(fp, encoding="utf-8").read()
        try:
            gen, items, rep = assemble_fragment(text, fp, repo, stats, srcs)
            audited += audit_fragment(gen, fp, repo, srcs, stats)
        except ValueError as e:
            raise AssemblyError("%s: %s" % (fp, e))
        texts.append((fp, gen))
        for it in items: it.fragment = fp
        all_items += items
        reports += rep
    full = ""
    for fp, gen in texts:
        start_line = full.count("\n") + 1
        full += gen if gen.endswith("\n") else gen + "\n"
        linemap.append((start_line, full.count("\n"), fp))
    stats["tokens_audited"] = audited
    if outpath:
        with open(outpath, "w", encoding="utf-8") as f: f.write(full)
    return dict(text=full, items=all_items, drift=reports, stats=stats, linemap=linemap)

# --------------------------------------------------------------------------- fn index / canary

CLAUSE_KW = {"requires", "ensures", "decreases", "recommends", "returns", "opens_invariants", "no_unwind", "via", "when", "invariant", "invariant_except_break", "default_ensures"}

def index_fns(text):
    """Rough index of fn items in generated Verus text: list of dicts with name, qual (impl
    target), mode, line, body (open,close token idx), ensures_tok, toks."""
    toks = tokenize(text)
    res = []
    # impl/trait context by brace tracking
    ctx = []   # stack of (close_index, label)
    i, n = 0, len(toks)
    while i < n:
        while ctx and i > ctx[-1][0]: ctx.pop()
        t = toks[i]
        if t.text in ("impl", "trait") and (i == 0 or toks[i-1].text not in (":", "+", "<", ",", "(", "&", "dyn", "->", ">", "=")):
            # find body open
            k = i
            while k < n and toks[k].text not in ("{", ";"):
                if toks[k].text in ("(", "["): k = match_close(toks, k)
                k += 1
            if k < n and toks[k].text == "{":
                hdr = [x.text for x in toks[i:k]]
                label = impl_label(hdr)
                ctx.append((match_close(toks, k), label))
                i = k + 1; continue
        if t.text == "fn" and i + 1 < n and IDENT.fullmatch(toks[i+1].text) and (i == 0 or toks[i-1].text not in ("spec_fn",)):
            name = toks[i+1].text
            # mode
            mode = "exec"
            b = i - 1
            quals = []
            while b >= 0 and toks[b].text in ("pub", "open", "closed", "spec", "proof", "exec", "unsafe", "const", "broadcast", "uninterp", "axiom", ")", "crate", "(", "tracked", "checked"):
                quals.append(toks[b].text); b -= 1
            if "spec" in quals: mode = "spec"
            elif "proof" in quals or "axiom" in quals: mode = "proof"
            # walk the header
            k = i + 2
            ens = None
            body = None
            late = None
            # attributes preceding the qualifiers
            ext = False
            bb = b
            while bb >= 0 and toks[bb].text == "]":
                d = 0
                while bb >= 0:
                    if toks[bb].text == "]": d += 1
                    elif toks[bb].text == "[":
                        d -= 1
                        if d == 0: break
                    elif toks[bb].text in ("external_body", "external"): ext = True
                    bb -= 1
                bb -= 1
                if bb >= 0 and toks[bb].text == "!": bb -= 1
                if bb >= 0 and toks[bb].text == "#": bb -= 1
                while bb >= 0 and toks[bb].text in ("pub", "open", "closed", "spec", "proof", "exec", "unsafe", "const", "broadcast", "uninterp", "axiom", ")", "crate", "(", "tracked", "checked"): bb -= 1
            while k < n:
                tx = toks[k].text
                if tx in ("(", "["):
                    k = match_close(toks, k) + 1; continue
                if tx == ";" :
                    break
                if tx == "ensures" and ens is None:
                    ens = k
                if tx in ("decreases", "opens_invariants", "no_unwind") and late is None:
                    late = k
                if tx == "{":
                    c = match_close(toks, k)
                    nxt = toks[c+1].text if c + 1 < n else ""
                    cont = (nxt in CLAUSE_KW) or (nxt and not IDENT.fullmatch(nxt) and nxt not in ("}", "#") and not nxt.startswith('"') and not nxt.startswith("'"))
                    # `,`/operators continue a clause expression; identifiers/keywords start a new item
                    if cont and nxt not in ("}",):
                        k = c + 1; continue
                    body = (k, c); break
                k += 1
            line = text.count("\n", 0, t.start) + 1
            qual = ctx[-1][1] if ctx else ""
            res.append(dict(name=name, qual=qual, mode=mode, line=line, body=body, ens=ens,
                            end_line=(text.count("\n", 0, toks[body[1]].start) + 1) if body else line,
                            body_pos=(toks[body[0]].start if body else None),
                            ens_pos=(toks[ens].end if ens is not None else None), external_body=ext,
                            ins_pos=(toks[late].start if late is not None else (toks[body[0]].start if body else None)),
                            quals=quals))
            if body:
                # do not descend for nested fns (closures are not `fn` items); skip to after header
                i = body[0] + 1; continue
            i = k + 1; continue
        i += 1
    return res

def impl_label(hdr):
    """`impl<..> Trait for Type<..>` -> 'Type as Trait' ; `impl<..> Type<..>` -> 'Type'; trait X -> 'X'."""
    toks = hdr[1:]
    # strip leading generics
    if toks and toks[0] == "<":
        d = 0
        for k, x in enumerate(toks):
            if x == "<": d += 1
            elif x == ">":
                d -= 1
                if d == 0:
                    toks = toks[k+1:]; break
    if "where" in toks: toks = toks[:toks.index("where")]
    def first_path(ts):
        out = []
        d = 0
        for x in ts:
            if x == "<": d += 1
            elif x == ">": d -= 1
            elif d == 0 and (IDENT.fullmatch(x) or x == ":"):
                out.append(x)
        s = "".join(out)
        return s.split("::")[-1] if s else "?"
    if hdr[0] == "trait":
        return toks[0] if toks else "?"
    if "for" in toks:
        k = toks.index("for")
        return "%s as %s" % (first_path([x for x in toks[k+1:] if x not in ("&", "mut", "'a", "'b")]), first_path(toks[:k]))
    return first_path([x for x in toks if x not in ("&", "mut")])

def make_canaries(text):
    """Vacuity canaries.  `ensures false` is added to exec/proof functions with a body - but a
    caller of a function that ensures false verifies vacuously, so the functions are split into
    classes that are independent in the (textual, over-approximated) call graph and one variant
    of the unit is generated per class.  Returns list of (text, [labels])."""
    fns = [f for f in index_fns(text)]
    toks = tokenize(text)
    pos2idx = {}
    cand = [f for f in fns if f["mode"] != "spec" and f["body"] is not None and not (f["name"] == "main" and not f["qual"]) and not f.get("external_body")]
    byname = {}
    for k, f in enumerate(cand):
        byname.setdefault(f["name"], []).append(k)
    adj = {k: set() for k in range(len(cand))}
    for k, f in enumerate(cand):
        o, c = f["body"]
        seen = set(t.text for t in toks[o:c + 1] if IDENT.fullmatch(t.text))
        # indexing syntax `x[i]` calls Index::index / IndexMut::index_mut without naming them
        if any(toks[q].text == "[" and q > o and (IDENT.fullmatch(toks[q-1].text) or toks[q-1].text in (")", "]")) for q in range(o, c + 1)):
            seen |= {"index", "index_mut"}
        for nm in seen:
            for j in byname.get(nm, []):
                if j != k:
                    adj[k].add(j); adj[j].add(k)
    colour = {}
    for k in sorted(adj, key=lambda x: -len(adj[x])):
        used = set(colour[j] for j in adj[k] if j in colour)
        c = 0
        while c in used: c += 1
        colour[k] = c
    out = []
    for c in sorted(set(colour.values())):
        edits, names = [], []
        for k, f in enumerate(cand):
            if colour[k] != c: continue
            if f["ens_pos"] is not None:
                edits.append((f["ens_pos"], " false, "))
            else:
                edits.append((f["ins_pos"], " ensures false "))
            names.append(fn_label(f))
        t = text
        for pos, ins in sorted(edits, reverse=True):
            t = t[:pos] + ins + t[pos:]
        out.append((t, names))
    return out

def fn_label(f):
    return (f["qual"] + "::" if f["qual"] else "") + f["name"]

if __name__ == "__main__":
    import argparse
    ap = argparse.ArgumentParser()
    ap.add_argument("fragments", nargs="+")
    ap.add_argument("--repo", default="/repo")
    ap.add_argument("-o", "--out")
    ap.add_argument("--canary", action="store_true")
    a = ap.parse_args()
    try:
        r = assemble_unit(a.fragments, a.repo, None)
    except AssemblyError as e:
        print("ASSEMBLY-ERROR:", e); sys.exit(2)
    text = r["text"]
    if a.canary:
        text, names = make_canaries(text)[0]
    if a.out:
        open(a.out, "w").write(text)
    print(json.dumps(dict(stats=r["stats"], drift=[(it.name, op, x, y) for it, op, x, y in r["drift"]], items=len(r["items"])), indent=1))
