#!/usr/bin/env python3
"""
Driver:  ./check <PROPERTY> [--tier quick|thorough]      decide one property
         ./check --replay <replay file>                   re-run the obligation a replay file names
         ./check --unit <unit> [--keep DIR]               developer: assemble + verify one unit
Exit codes: 0 property held on everything checked; 1 a named obligation failed (VIOLATION line);
            2 undecided (tool limit: lost anchor, merge conflict, compile error in the generated
            text, rlimit, vacuity suspicion) - never a claim about the property.
"""
import sys, os, json, re, subprocess, time, hashlib, shutil, tempfile, argparse, signal

HERE = os.path.dirname(os.path.abspath(__file__))
VERIF = os.path.dirname(HERE)
sys.path.insert(0, HERE)
import extract

REPO = os.environ.get("PGVERIF_REPO", "/repo")
CONF = json.load(open(os.path.join(VERIF, "units", "units.json")))

VERIF_FAIL = [
    (r"postcondition not satisfied", "ensures"),
    (r"precondition not satisfied", "requires-at-call"),
    (r"assertion failed", "assert"),
    (r"invariant not satisfied at end of loop body", "invariant-end"),
    (r"invariant not satisfied before loop", "invariant-entry"),
    (r"loop invariant not preserved|loop invariant not satisfied", "invariant"),
    (r"possible arithmetic underflow/overflow", "overflow"),
    (r"possible division by zero", "div0"),
    (r"decreases not satisfied|could not prove termination", "decreases"),
    (r"possible bit shift underflow/overflow", "shift"),
    (r"unreachable", "unreachable"),
    (r"possible truncation|integer cast", "cast"),
    (r"constructor .* not satisfied|field access .* variant", "variant"),
    (r"failed to satisfy .*trait.* (ensures|requires)|trait method.* (ensures|postcondition)", "trait-ensures"),
    (r"may fail to meet its declared type invariant", "type-invariant"),
    (r"unable to prove post-?condition of closure", "closure-ensures"),
    (r"fails to satisfy `?callee\.requires", "closure-requires-at-call"),
    (r"cannot prove .*|unable to prove .*", "other"),
]
TOOL_LIMIT = [r"Resource limit \(rlimit\) exceeded", r"rlimit", r"not supported", r"unsupported", r"The verifier does not yet support", r"timed? ?out"]

TRUST_PATTERNS = [
    ("assume", r"\bassume\s*\("), ("admit", r"\badmit\s*\("),
    ("external_body", r"verifier::external_body"), ("assume_specification", r"\bassume_specification\b"),
    ("external", r"verifier::external\b(?!_body)"), ("external_type_specification", r"external_type_specification"),
    ("uninterp", r"\buninterp\b"), ("axiom", r"\baxiom\b"), ("exec_allows_no_decreases_clause", r"exec_allows_no_decreases_clause"),
    ("external_fn_specification", r"external_fn_specification"), ("assume_false", r"assume\s*\(\s*false"),
]

def log(*a):
    print(*a, flush=True)

class Undecided(Exception):
    pass

# ------------------------------------------------------------------ known findings

def load_known():
    known, fixed = [], []
    p = os.path.join(VERIF, "known_findings.txt")
    if os.path.exists(p):
        for line in open(p):
            line = line.strip()
            if not line or line.startswith("#"): continue
            if line.startswith("known:"):
                m = re.match(r"known:\s*property=(\S+)\s+obligation=(\S+)\s+(.*)", line)
                if m: known.append(dict(prop=m.group(1), obligation=m.group(2), what=m.group(3)))
            elif line.startswith("fixed:"):
                fixed.append(line)
    return known, fixed

# ------------------------------------------------------------------ verus

def run_verus(path, workdir, seed=None, rlimit=None, timeout=1800):
    cmd = ["verus", os.path.basename(path), "--output-json", "--time", "--num-threads", "16",
           "--error-format=json", "--multiple-errors", "4", "--triggers-mode", "silent"]
    if seed is not None:
        cmd += ["--smt-option", "smt.random_seed=%d" % seed, "--smt-option", "sat.random_seed=%d" % seed]
    if rlimit is not None:
        cmd += ["--rlimit", str(rlimit)]
    t0 = time.time()
    try:
        p = subprocess.run(cmd, cwd=workdir, capture_output=True, text=True, timeout=timeout)
    except subprocess.TimeoutExpired:
        raise Undecided("verus timed out after %ds on %s" % (timeout, path))
    wall = time.time() - t0
    try:
        res = json.loads(p.stdout)
    except Exception:
        raise Undecided("verus produced no JSON result (rc=%d): %s" % (p.returncode, (p.stderr or p.stdout)[-2000:]))
    diags = []
    for line in p.stderr.splitlines():
        line = line.strip()
        if line.startswith("{"):
            try: diags.append(json.loads(line))
            except Exception: pass
    return dict(cmd=" ".join(cmd), res=res, diags=diags, wall=wall, rc=p.returncode, stderr=p.stderr)

def breakdown(res):
    out = []
    for m in res.get("times-ms", {}).get("smt", {}).get("smt-run-module-times", []):
        for f in m.get("function-breakdown", []):
            out.append(f)
    return out

# ------------------------------------------------------------------ one unit

class UnitResult:
    pass

def locate(gen_text, fns, line):
    best = None
    for f in fns:
        if f["line"] <= line <= f["end_line"]:
            best = f
    if best is None:
        for f in fns:
            if f["line"] <= line: best = f
    return best

def item_at(unit_items, gen_text, line, frag_of_line):
    return None

def classify_diag(d):
    msg = d.get("message", "")
    for pat in TOOL_LIMIT:
        if re.search(pat, msg, re.I):
            return ("tool", None)
    for pat, kind in VERIF_FAIL:
        if re.search(pat, msg, re.I):
            return ("fail", kind)
    return ("unknown", None)

def label_of(text_line):
    m = re.search(r"//\s*\[([A-Za-z0-9_.\-]+)\]", text_line or "")
    return m.group(1) if m else None

SKELETON_RE = re.compile(r"\b(?:if|else|match|return|while|for|loop|break|continue)\b|=>|\?|(?:(?<=[(,={;])|(?<=\bmove)|(?<=\breturn))\s*\|\|?")
def skeleton(text):
    """the control-flow skeleton of a piece of token text: branching / looping / exit keywords, match arrows, `?`, closure heads"""
    text = re.sub(r"//[^\n]*", " ", text)
    out = []
    for m in SKELETON_RE.finditer(text):
        t = m.group(0).strip()
        if t == "if" and re.match(r"[^{};]*?=>", text[m.end():]):
            t = "arm-guard-if"      # `PAT if cond => ..`
        out.append("|closure|" if t.startswith("|") else t)
    return out

HARD_OPS = set("<< >> % / ^ <<= >>= %= /= *= ^= &= |=".split())
NOT_AN_OPERAND = set("return in mut as let if while match else move ref dyn impl for loop break where".split())
def hard_arith(text):
    """operators of the arithmetic an SMT solver does not decide unprompted (nonlinear, bit-vector) in space-joined token text"""
    toks = re.sub(r"//[^\n]*", " ", text).split()
    out = []
    operand_end = lambda k: k >= 0 and re.match(r"[\w)\]]", toks[k][-1]) and toks[k] not in NOT_AN_OPERAND
    for i, t in enumerate(toks):
        # the tokenizer keeps `>` `>` and `<` `<` apart (generics): a shift has an operand on both sides
        if t in (">", "<") and i + 2 < len(toks) and toks[i + 1] in (t, t + "=") and operand_end(i - 1) and re.match(r"[\w(]", toks[i + 2]) and toks[i + 2] not in ("where", "for", "as"):
            out.append(t + t)
        if t in HARD_OPS:
            out.append(t)
        elif t in ("*", "&", "|") and i > 0 and re.match(r"[\w)\]]", toks[i - 1][-1]) and toks[i - 1] not in NOT_AN_OPERAND:
            out.append("binary" + t)
    return out

def is_subsequence(a, b):
    it = iter(b)
    return all(any(x == y for y in it) for x in a)


def line_in_loop(text, line):
    """is the given line of the generated text inside the body of a `while` / `loop` / `for`?"""
    toks = extract.tokenize(text)
    off = 0
    for _ in range(line - 1):
        off = text.find("\n", off) + 1
    # index of the first token at or after the line start
    k = 0
    while k < len(toks) and toks[k].start < off: k += 1
    depth = 0
    j = k - 1
    while j >= 0:
        tx = toks[j].text
        if tx == "}": depth += 1
        elif tx == "{":
            if depth == 0:
                # an enclosing block: what introduces it?
                q = j - 1; d2 = 0
                while q >= 0:
                    t2 = toks[q].text
                    if t2 in (")", "]"): d2 += 1
                    elif t2 in ("(", "["):
                        if d2 == 0: break
                        d2 -= 1
                    elif d2 == 0 and t2 in (";", "{", "}"):
                        break
                    elif d2 == 0 and t2 in ("while", "loop", "for"):
                        return True
                    elif d2 == 0 and t2 in ("fn",):
                        return False
                    q -= 1
            else:
                depth -= 1
        j -= 1
    return False

def is_proof_hint(f, fns):
    """a failing obligation that is only a proof hint: an `assert` of the spliced proof text (not a debug_assert! of the code, which
    rule D2 writes as `assert(__c)` / `assert(__eq)`), or the precondition of a lemma (proof fn) call"""
    if f["kind"] == "assert":
        t = f.get("at_text", "") + " " + f.get("clause", "")
        if re.search(r"assert\s*\(\s*__(c|eq)\w*\s*\)", t) or "debug_assert" in f["obligation"]:
            return False
        return True
    if f["kind"] == "requires-at-call":
        nm = f.get("callee", "").strip("()").split("::")[-1]
        if not nm: return False
        modes = set(g.get("mode") for g in fns if g["name"] == nm)
        return modes == {"proof"}
    return False

def prune_statements(text, spans):
    """blank (keeping line structure) the statement each span lies in: `assert(..);`, `assert(..) by {..}[;]`,
    `assert forall .. by {..}`, `lemma(..);`"""
    toks = [t for t in extract.tokenize(text) if True]
    starts = []
    off = 0
    line_off = [0]
    for ln in text.split("\n"):
        off += len(ln) + 1; line_off.append(off)
    cuts = []
    for (l0, c0, l1, c1) in spans:
        pos = line_off[l0 - 1] + (c0 - 1)
        # token at / after pos
        k = 0
        while k < len(toks) and toks[k].end <= pos: k += 1
        if k >= len(toks): continue
        # statement start: after the previous ; { } at depth 0
        j = k - 1; depth = 0; st = 0
        while j >= 0:
            tx = toks[j].text
            if tx in (")", "]"): depth += 1
            elif tx in ("(", "["):
                if depth == 0: st = j + 1; break
                depth -= 1
            elif depth == 0 and tx in (";", "{", "}"):
                st = j + 1; break
            j -= 1
        if st >= len(toks): continue
        if toks[st].text not in ("assert",) and not re.match(r"[A-Za-z_]", toks[st].text):
            continue
        # statement end
        j = st; depth = 0; en = None
        while j < len(toks):
            tx = toks[j].text
            if tx in ("(", "[", "{"): depth += 1
            elif tx in (")", "]", "}"):
                depth -= 1
                if depth < 0: break
                if depth == 0 and tx == "}":
                    en = j
                    if j + 1 < len(toks) and toks[j + 1].text == ";": en = j + 1
                    break
            elif tx == ";" and depth == 0:
                en = j; break
            j += 1
        if en is None: continue
        cuts.append((toks[st].start, toks[en].end))
    out = text
    for (a, b) in sorted(set(cuts), reverse=True):
        seg = out[a:b]
        out = out[:a] + "".join(ch if ch == "\n" else " " for ch in seg) + out[b:]
    return out

def run_unit(unit, workdir, seed=None, rlimit=None, do_canary=True, keep=None):
    """Two stages.  The plain token merge first.  Only if /repo changed in a way that leaves the merged text uncompilable
    (blocks exchanged, a loop turned into an `if`, a statement moved past spliced proof text) the merge is repeated with the
    structural heuristics of extract.py; after such a merge the placement of proof text is uncertain, so only a complete pass
    is accepted (the changed code meets every contract: quiet) and any failing obligation leaves the outcome undecided."""
    try:
        ur1 = _run_unit(unit, workdir, seed=seed, rlimit=rlimit, do_canary=do_canary, keep=keep, structural=False)
    except Undecided as e:
        if getattr(e, "try_structural", False):
            # the plain merge's failures were judged inconclusive: a complete pass under the structural merge still settles it
            try:
                ur2 = _run_unit(unit, workdir, seed=seed, rlimit=rlimit, do_canary=False, keep=None, structural=True)
                if not ur2.fails:
                    log("unit %s: obligations failed under the plain merge but the structural merge verifies completely: the changed code meets its contracts" % unit)
                    return ur2
            except Undecided:
                pass
            raise Undecided(str(e) + "\n   (the structural merge does not verify completely either)")
        if "does not compile" not in str(e) or not getattr(e, "drift", False):
            raise
        first = str(e)
        try:
            return _run_unit(unit, workdir, seed=seed, rlimit=rlimit, do_canary=do_canary, keep=keep, structural=True)
        except Undecided as e2:
            raise Undecided(first.split("\n")[0] + "\n   (second attempt with the structural merge: " + str(e2).split("\n")[0][:300] + ")\n" + "\n".join(first.split("\n")[1:]))
    if ur1.fails and ur1.asm["drift"]:
        # the plain merge compiles but obligations fail: before reporting them, see whether another alignment of the PROOF TEXT with
        # the same (audited) executable text verifies completely - a complete proof is a proof, whatever merge produced it
        try:
            ur2 = _run_unit(unit, workdir, seed=seed, rlimit=rlimit, do_canary=False, keep=None, structural=True)
            if not ur2.fails:
                log("unit %s: %d obligation(s) failed under the plain merge (%s) but the structural merge verifies completely: the changed code meets its contracts" % (
                    unit, len(ur1.fails), ", ".join(f["obligation"] for f in ur1.fails[:3])))
                ur2.canary = ur1.canary
                return ur2
        except Undecided:
            pass
    return ur1

def _run_unit(unit, workdir, seed=None, rlimit=None, do_canary=True, keep=None, structural=False):
    extract.STRUCTURAL = structural
    try:
        return _run_unit_inner(unit, workdir, seed, rlimit, do_canary, keep, structural)
    finally:
        extract.STRUCTURAL = False

def _run_unit_inner(unit, workdir, seed, rlimit, do_canary, keep, structural):
    u = CONF["units"][unit]
    frags = [os.path.join(VERIF, "units", f) for f in u["fragments"]]
    t0 = time.time()
    try:
        asm = extract.assemble_unit(frags, REPO)
    except extract.AssemblyError as e:
        raise Undecided("unit %s: assembly: %s" % (unit, e))
    gen = asm["text"]
    path = os.path.join(workdir, "pgv_%s.rs" % unit)
    open(path, "w").write(gen)
    if keep:
        shutil.copy(path, os.path.join(keep, "pgv_%s.rs" % unit))
    fns = extract.index_fns(gen)
    lines = gen.split("\n")
    # map line -> item (for property tags)
    item_ranges = []
    reparsed = []
    for (l0, l1, fp) in asm["linemap"]:
        pass
    # item spans in generated text: search directives again
    cur = None
    for ln, tx in enumerate(lines, 1):
        s = tx.strip()
        if s.startswith("//@ item"):
            parts = [p.strip() for p in s[3:].split("|")]
            props = None
            for p_ in parts[3:]:
                if p_.startswith("props="): props = p_[6:].split(",")
            cur = dict(start=ln, rel=parts[0].split(None, 1)[1], container=parts[1], name=parts[2], props=props)
        elif s.startswith("//@ end") and cur:
            cur["end"] = ln; item_ranges.append(cur); cur = None
    def frag_of(line):
        for (l0, l1, fp) in asm["linemap"]:
            if l0 <= line <= l1: return os.path.relpath(fp, os.path.join(VERIF, "units"))
        return "?"
    def props_at(line):
        for it in item_ranges:
            if it["start"] <= line <= it["end"] and it["props"]:
                return it["props"], it
        fr = frag_of(line)
        it = None
        for x in item_ranges:
            if x["start"] <= line <= x["end"]: it = x
        return u.get("fragment_props", {}).get(fr, u["props"]), it

    trust = []
    for ln, tx in enumerate(lines, 1):
        code = tx.split("//")[0]
        for kind, pat in TRUST_PATTERNS:
            if re.search(pat, code):
                f = locate(gen, fns, ln)
                if "#[" in code or kind == "assume_specification":
                    nxt = [g for g in fns if g["line"] >= ln]
                    f = nxt[0] if nxt and kind != "assume_specification" else None
                trust.append(dict(kind=kind, line=ln, frag=frag_of(ln), where=(extract.fn_label(f) if f else "-"), text=code.strip()[:160]))
    r = run_verus(path, workdir, seed=seed, rlimit=rlimit)
    if rlimit is None and any(classify_diag(d)[0] == "tool" for d in r["diags"] if d.get("level") == "error"):
        # a query ran out of resources: a failing proof often does.  Try once more with ten times the limit so that a
        # genuinely unprovable obligation is reported as such; if it still runs out the result stays "undecided" (exit 2).
        log("unit %s: resource limit hit, re-running with --rlimit 100" % unit)
        r = run_verus(path, workdir, seed=seed, rlimit=100)
    vr = r["res"].get("verification-results", {})
    def collect(r):
      fails, tools, unknown = [], [], []
      for d in r["diags"]:
          if d.get("level") != "error": continue
          if d.get("message", "").startswith("aborting due to"): continue
          cls, kind = classify_diag(d)
          spans = []
          for sp in d.get("spans", []):
              cur = sp
              while cur is not None and os.path.basename(cur.get("file_name", "")) != os.path.basename(path) and cur.get("expansion"):
                  cur = cur["expansion"].get("span")
              if cur is not None and cur is not sp:
                  cur = dict(cur); cur["is_primary"] = sp.get("is_primary"); cur["label"] = sp.get("label")
              spans.append(cur or sp)
          prim = [s for s in spans if s.get("is_primary")] or spans
          if cls == "fail" and prim:
              ps = prim[0]
              # the clause that failed (labelled span) vs the place it failed at
              clause_span = None
              for s in spans:
                  if s.get("label") and re.search(r"failed this|failed pre|this (post|pre)condition|invariant", s["label"]):
                      clause_span = s
              cs = clause_span or ps
              cl_text = (cs.get("text") or [{}])[0].get("text", "")
              # a multi-line clause: the label may be on any of its lines
              lab = None
              if os.path.basename(cs.get("file_name", "")) != os.path.basename(path):
                  # the clause belongs to a contract vstd states for a std trait method (e.g. Iterator::next)
                  lab = "vstd:%s:%d" % (os.path.basename(cs.get("file_name", "?")), cs["line_start"])
                  cl_text = "(clause of the contract vstd gives this std trait method, %s line %d)" % (cs.get("file_name", "?"), cs["line_start"])
              else:
                for ln in range(cs["line_start"], cs["line_end"] + 1):
                  lab = lab or label_of(lines[ln - 1] if ln - 1 < len(lines) else "")
              at = [s for s in spans if s is not cs]
              at_line = at[0]["line_start"] if at else ps["line_start"]
              # the function the obligation belongs to: for requires-at-call it is the caller (primary span)
              own_line = ps["line_start"] if kind == "requires-at-call" else (at_line if kind == "ensures" else ps["line_start"])
              f = locate(gen, fns, own_line)
              fname = extract.fn_label(f) if f else "?"
              if lab is None:
                  lab = "L" + hashlib.sha1(" ".join(cl_text.split()).encode()).hexdigest()[:8]
              callee = ""
              if kind == "requires-at-call":
                  cf = locate(gen, fns, cs["line_start"]) if clause_span else None
                  callee = "(" + extract.fn_label(cf) + ")" if cf else ""
              name = ("%s::%s#%s%s[%s]" % (unit, fname, kind, callee, lab)).replace(" ", "_")   # no blanks: the name is one token of the VIOLATION / known-findings lines
              props, it = props_at(own_line)
              fails.append(dict(obligation=name, kind=kind, fn=fname, props=props, message=d["message"],
                                clause=" ".join(cl_text.split())[:300], clause_line=cs["line_start"], at_line=at_line,
                                at_text=(lines[at_line - 1].strip() if at_line - 1 < len(lines) else ""),
                                source=(dict(file=it["rel"], item=it["container"] + " :: " + it["name"]) if it else None),
                                rendered=d.get("rendered", ""), span=(ps["line_start"], ps["column_start"], ps["line_end"], ps["column_end"]), callee=callee))
          elif cls == "tool":
              tools.append(d.get("rendered") or d.get("message"))
          else:
              unknown.append(d.get("rendered") or d.get("message"))
      return fails, tools, unknown
    fails, tools, unknown = collect(r)
    # ---- proof hints that fail after a REPOSITORY CHANGE (drift) are not violations by themselves: Verus goes on as if a failed
    # `assert` / lemma precondition held, so the function's contract is only decided once the failing hint is taken out.  Take the
    # failing hints out (never assume them) and verify again: the contract passes -> the property holds on the changed code (no
    # alarm); a contract-level obligation fails -> that obligation is the violation; no end after four rounds -> undecided.
    pruned = []
    if asm["drift"] and fails and not unknown and not tools and not vr.get("encountered-vir-error"):
        cur_text = gen
        for _round in range(4):
            if not fails or not all(is_proof_hint(f, fns) for f in fails):
                break
            new_text = prune_statements(cur_text, [f["span"] for f in fails])
            if new_text == cur_text:
                break
            pruned += [f["obligation"] for f in fails]
            cur_text = new_text
            open(path, "w").write(cur_text)
            lines = cur_text.split("\n")
            r = run_verus(path, workdir, seed=seed, rlimit=rlimit)
            vr = r["res"].get("verification-results", {})
            fails, tools, unknown = collect(r)
            if unknown or tools or vr.get("encountered-vir-error"):
                raise Undecided("unit %s: after a repository change %d proof hint(s) fail (%s) and the text without them is outside the verifier's reach:\n%s" % (
                    unit, len(pruned), ", ".join(pruned[:4]), "\n".join(unknown + tools)[:2000]))
        else:
            if fails and all(is_proof_hint(f, fns) for f in fails):
                raise Undecided("unit %s: after a repository change proof hints keep failing (%s): the contract could not be decided" % (unit, ", ".join(pruned[:6])))
        if pruned:
            log("unit %s: %d proof hint(s) failed after a repository change and were taken out before deciding: %s" % (unit, len(pruned), ", ".join(pruned[:6])))
    if vr.get("encountered-vir-error") or unknown:
        ex_ = Undecided("unit %s: the generated text does not compile / is outside the verifier's subset:\n%s" % (unit, "\n".join(unknown + tools)[:4000]))
        ex_.drift = bool(asm["drift"])
        raise ex_
    if structural and fails:
        raise Undecided("unit %s: /repo changed the structure of a function under contract; the structural merge compiles but %d obligation(s) fail (%s) - "
                        "after such a merge the placement of the proof text is uncertain: not decided" % (unit, len(fails), ", ".join(f["obligation"] for f in fails[:4])))
    # ---- a loop invariant written before a repository change cannot mention a local variable the change INTRODUCES: inside the
    # loop the verifier then lacks that variable's defining equation, and what fails there is inconclusive (hoisting an expression
    # out of a loop is the typical harmless case).  If the repository added a `let` to a function and ALL of that function's failing
    # obligations lie inside loops, the outcome is undecided (exit 2), not a violation.
    if asm["drift"] and fails:
        new_lets = {}
        for (it_, op_, had_, has_) in asm["drift"]:
            if op_ in ("insert", "replace", "insert-at") and re.search(r"\blet\b", has_ or "") and not re.search(r"\blet\b", had_ or ""):
                new_lets[(it_.container, it_.name)] = has_[:80]
        if new_lets:
            byfn = {}
            for f in fails: byfn.setdefault(f["fn"], []).append(f)
            inconclusive = []
            for fn_, fs in byfn.items():
                src_items = set((f["source"]["item"] if f.get("source") else None) for f in fs)
                touched = any((c + " :: " + n) in src_items for (c, n) in new_lets)
                if touched and all(line_in_loop(gen, f["span"][0]) for f in fs):
                    inconclusive += [f["obligation"] for f in fs]
            if inconclusive and len(inconclusive) == len(fails):
                raise Undecided("unit %s: the repository introduced a new local variable (%s) and every failing obligation lies inside a loop whose invariant "
                                "cannot know it (%s): not decided" % (unit, "; ".join(new_lets.values())[:120], ", ".join(inconclusive[:4])))
    # ---- NEW CONTROL FLOW.  The proof text of a function was written for the control-flow skeleton the function had.  When the
    # repository gives the function skeleton tokens it did not have (a new `return` / `else` / `?`, a match-arm guard, a loop of
    # another kind, a closure; compared as multisets over the whole item) there are paths for which no proof text exists and constructs
    # the verifier may handle incompletely (Verus cannot prove `*final(self) == *old(self)` at `_ => return None` after a guarded
    # arm, for one): a failing obligation in such a function is a failed PROOF, not evidence against the code.  Both merges have
    # been tried at this point (a complete pass would have been accepted); what fails in such a function is undecided (exit 2).
    # A change that keeps the skeleton or only REMOVES from it (a guard dropped, a branch deleted, any change of expressions,
    # conditions, arguments, statements), or that purely INSERTS one guarded early exit, is decided as before: the named obligation
    # is the violation.
    if asm["drift"] and fails and os.environ.get("PGVERIF_NO_SKELETON_RULE") != "1":
        import collections
        reshaped, exempt = {}, {}
        for (it_, op_, had_, has_) in asm["drift"]:
            key = it_.container + " :: " + it_.name
            if op_ == "insert" and not (had_ or "").strip() and re.match(r"^\s*if\b[^{}|]*\{\s*return\b[^{}|;]*;\s*\}\s*$", re.sub(r"//[^\n]*", " ", has_ or "")) and "=>" not in has_:
                # a PURE INSERTION of one guarded early exit `if c { return e; }`: no existing text moved or went away, the only new path is
                # the inserted one and what must hold there is the function's postcondition at that exit - decided on its own
                exempt.setdefault(key, collections.Counter()).update(skeleton(has_))
        for it_ in set(d_[0] for d_ in asm["drift"]):
            key = it_.container + " :: " + it_.name
            k_old = collections.Counter(skeleton(getattr(it_, "old_text", "")))
            k_new = collections.Counter(skeleton(getattr(it_, "new_text", ""))) - exempt.get(key, collections.Counter())
            extra = k_new - k_old
            if extra:
                reshaped[key] = " ".join(sorted(extra.elements()))
            # ... and the same for ARITHMETIC THE SOLVER DOES NOT DECIDE UNPROMPTED: a multiplication, division, remainder, shift or
            # bit operation the function did not have (`x / 2` written as `x >> 1`) needs proof text (nonlinear / bit-vector lemmas)
            # that nobody wrote for it
            extra_a = collections.Counter(hard_arith(getattr(it_, "new_text", ""))) - collections.Counter(hard_arith(getattr(it_, "old_text", "")))
            if extra_a:
                reshaped[key] = (reshaped.get(key, "") + " new nonlinear / bit-vector operators: " + " ".join(sorted(extra_a.elements()))).strip()
        if reshaped:
            inconclusive = [f for f in fails if f.get("source") and f["source"]["item"] in reshaped]
            if inconclusive and len(inconclusive) == len(fails):
                ex_ = Undecided("unit %s: the repository gave %s control flow or arithmetic its proof text was not written for (new: %s); %d obligation(s) "
                                "of that function fail (%s) - a failed proof, not evidence against the code: not decided" % (
                                    unit, ", ".join(sorted(reshaped))[:200], "; ".join(reshaped.values())[:120], len(fails), ", ".join(f["obligation"] for f in fails[:4])))
                ex_.try_structural = True
                raise ex_
            fails = [f for f in fails if f not in inconclusive]
    bd = breakdown(r["res"])
    # functions that hit rlimit are reported as tool limits
    if tools:
        raise Undecided("unit %s: verifier resource limit:\n%s" % (unit, "\n".join(tools)[:3000]))
    if not fails and not vr.get("success"):
        raise Undecided("unit %s: verus reported failure without a classifiable diagnostic:\n%s" % (unit, r["stderr"][-3000:]))
    ur = UnitResult()
    ur.unit, ur.asm, ur.gen, ur.fns, ur.fails, ur.trust = unit, asm, gen, fns, fails, trust
    ur.pruned = pruned
    ur.verified, ur.errors = vr.get("verified", 0), vr.get("errors", 0)
    ur.breakdown = bd
    ur.smt_ms = r["res"].get("times-ms", {}).get("smt", {}).get("total", 0)
    ur.wall = r["wall"]
    ur.cmd = r["cmd"]
    ur.path = path
    ur.frag_of = frag_of
    ur.props_at = props_at
    if ur.verified + ur.errors == 0:
        raise Undecided("unit %s: zero obligations generated" % unit)
    base = u.get("min_verified")
    if base and not fails and ur.verified < base:
        raise Undecided("unit %s: only %d functions verified, baseline is %d (vacuity guard)" % (unit, ur.verified, base))
    # trust scan against declared counts
    counts = {}
    for t in trust: counts[t["kind"]] = counts.get(t["kind"], 0) + 1
    ur.trust_counts = counts
    decl = u.get("trusted")
    if decl is not None and decl != counts:
        raise Undecided("unit %s: trust scan differs from the declared trusted list: found %s, declared %s" % (unit, counts, decl))
    # canary
    ur.canary = None
    if do_canary:
        variants = extract.make_canaries(gen)
        from concurrent.futures import ThreadPoolExecutor
        def one(iv):
            i, (ctext, cnames) = iv
            cpath = os.path.join(workdir, "pgv_%s_canary%d.rs" % (unit, i))
            open(cpath, "w").write(ctext)
            return run_verus(cpath, workdir, seed=seed, rlimit=rlimit), cnames
        tc = time.time()
        with ThreadPoolExecutor(max_workers=8) as ex:
            outs = list(ex.map(one, enumerate(variants)))
        total, failed, bad = 0, 0, []
        for cr, cnames in outs:
            cvr = cr["res"].get("verification-results", {})
            if cvr.get("encountered-vir-error") or cvr.get("verified", 0) + cvr.get("errors", 0) == 0:
                raise Undecided("unit %s: canary text does not compile: %s" % (unit, cr["stderr"][-2000:]))
            cbd = breakdown(cr["res"])
            from collections import Counter
            failed_ct = Counter(f["function"].split("::")[-1] for f in cbd if f.get("mode:") in ("exec", "proof") and not f.get("success"))
            want_ct = Counter(nm.split("::")[-1] for nm in cnames)
            total += len(cnames)
            for nm, c in want_ct.items():
                got = min(c, failed_ct.get(nm, 0))
                failed += got
                if got < c:
                    bad += [x for x in cnames if x.split("::")[-1] == nm][: c - got]
        allowed = set(u.get("canary_exempt", []))
        bad = [x for x in bad if x not in allowed]
        ur.canary = dict(functions=total, failed_as_expected=failed, variants=len(variants), survivors=bad, wall=round(time.time() - tc, 2))
        if bad:
            raise Undecided("unit %s: vacuity canary: `ensures false` was PROVED for %s - contradictory precondition or assumption" % (unit, bad))
    ur.total_wall = time.time() - t0
    return ur

# ------------------------------------------------------------------ kani (complete kernels and bounded stand-ins)

def run_kani(prop, tier, workdir):
    """Run the Kani harnesses registered for the property.  Returns (results, violations)."""
    hs = [h for h in CONF.get("kani", []) if prop in h["props"] and (tier == "thorough" or h.get("tier", "quick") == "quick")]
    if not hs: return [], []
    import kani_runner
    try:
        res, viol = kani_runner.run(hs, REPO, workdir, VERIF)
    except RuntimeError as e:
        raise Undecided("kani: %s" % e)
    for r in res:
        log("kani %-28s %s: %d checks, %d failed, %.1fs%s" % (r["name"], r["status"], r["checks"], r["failed"], r["seconds"], "" if r["complete"] else "  [BOUNDED: %s]" % r["bound"]))
    return res, viol

# ------------------------------------------------------------------ property

def write_replay(prop, unit, fail, ur, extra=None):
    os.makedirs(os.path.join(VERIF, "replay"), exist_ok=True)
    h = hashlib.sha1(fail["obligation"].encode()).hexdigest()[:10]
    path = os.path.join(VERIF, "replay", "%s-%s-%s.json" % (prop, unit, h))
    doc = dict(property=prop, unit=unit, obligation=fail["obligation"], kind=fail["kind"], function=fail["fn"],
               failed_clause=fail["clause"], failed_at=fail["at_text"], source=fail["source"],
               verifier="verus", verifier_cmd=ur.cmd if ur else None, verifier_output=fail["rendered"],
               failing_input=None, note="Verus gives no counterexample; no-failing-input-found. Re-run: ./check --replay %s" % path,
               repo_drift=[dict(item=it.container + " :: " + it.name, op=op, fragment_had=a, repository_has=b) for (it, op, a, b) in (ur.asm["drift"] if ur else [])])
    if extra: doc.update(extra)
    json.dump(doc, open(path, "w"), indent=1)
    return path

def check_property(prop, tier, seed):
    t0 = time.time()
    pconf = CONF["properties"].get(prop)
    if pconf is None:
        log("property %s is not claimed (see MANIFEST.json not_applicable)" % prop); return 2
    known, _fixed = load_known()
    base = os.environ.get("TMPDIR") or "/var/tmp"
    workdir = tempfile.mkdtemp(prefix="pgverif.", dir=base)
    rc = 0
    try:
        units = pconf["units"]
        results = []
        violations, known_hits = [], []
        seeds = [None] if tier == "quick" else [None, seed * 3 + 1, seed * 3 + 2]
        unstable = []
        for unit in units:
            # (PGVERIF_NO_CANARY=1 is for the seeded-change sweeps only - tools/run_seeded*.sh -, where the question is whether a CHANGED
            # tree fails an obligation; the registered quick / thorough commands never set it)
            ur = run_unit(unit, workdir, seed=None, do_canary=not os.environ.get("PGVERIF_NO_CANARY"))
            results.append(ur)
            log("unit %-10s items=%d tokens_audited=%d verified=%d errors=%d smt=%.1fs wall=%.1fs canary: %d/%d failed as expected%s" % (
                unit, len(ur.asm["items"]), ur.asm["stats"].get("tokens_audited", 0), ur.verified, ur.errors, ur.smt_ms / 1000.0, ur.total_wall,
                (ur.canary or {}).get("failed_as_expected", 0), (ur.canary or {}).get("functions", 0), (" DRIFT(%d edits merged from repository)" % len(ur.asm["drift"])) if ur.asm["drift"] else ""))
            if tier == "thorough":
                for sd in seeds[1:]:
                    ur2 = run_unit(unit, workdir, seed=sd, do_canary=False)
                    a = sorted(f["obligation"] for f in ur.fails); b = sorted(f["obligation"] for f in ur2.fails)
                    log("unit %-10s seed=%d verified=%d errors=%d" % (unit, sd, ur2.verified, ur2.errors))
                    if a != b:
                        unstable.append((unit, sd, sorted(set(a) ^ set(b))))
                ur3 = run_unit(unit, workdir, seed=None, rlimit=5, do_canary=False) if True else None
        if unstable:
            raise Undecided("obligations unstable across z3 seeds: %s" % unstable)
        for ur in results:
            for f in ur.fails:
                if prop not in f["props"]:
                    log("note: obligation %s failed but is tagged %s, not %s" % (f["obligation"], f["props"], prop))
                    continue
                k = [x for x in known if x["prop"] == prop and x["obligation"] == f["obligation"]]
                if k:
                    known_hits.append((f, k[0]))
                else:
                    violations.append((ur, f))
        # Kani part
        kres, kviol = run_kani(prop, tier, workdir)
        for kv in kviol:
            k = [x for x in known if x["prop"] == prop and x["obligation"] == kv["obligation"]]
            if k: known_hits.append((kv, k[0]))
        kviol = [kv for kv in kviol if not [x for x in known if x["prop"] == prop and x["obligation"] == kv["obligation"]]]
        for f, k in known_hits:
            log("KNOWN-FINDING: property=%s %s %s" % (prop, f["obligation"], k["what"]))
        for ur, f in violations:
            rp = write_replay(prop, ur.unit, f, ur)
            log("obligation failed: %s\n  clause: %s\n  at:     %s" % (f["obligation"], f["clause"], f["at_text"]))
            log("VIOLATION property=%s replay=%s obligation=%s no-failing-input-found" % (prop, rp, f["obligation"]))
            rc = 1
        for kv in kviol:
            log("VIOLATION property=%s replay=%s obligation=%s%s" % (prop, kv["replay"], kv["obligation"], "" if kv.get("replayed") else " no-failing-input-found"))
            rc = 1
        write_evidence(prop, tier, seed, results, kres, violations, kviol, known_hits, time.time() - t0)
        if rc == 0:
            log("OK property=%s tier=%s: %d verus obligations (function-level) discharged in %d unit(s)%s; %d known finding(s)" % (
                prop, tier, sum(r.verified for r in results), len(results),
                (", %d kani harnesses" % len(kres)) if kres else "", len(known_hits)))
        return rc
    finally:
        shutil.rmtree(workdir, ignore_errors=True)

def clause_count(gen):
    return len(re.findall(r"\b(requires|ensures|invariant|invariant_except_break|decreases)\b", gen)), len(re.findall(r"\bassert\s*(\(|forall)", gen))

def write_evidence(prop, tier, seed, results, kres, violations, kviol, known_hits, wall):
    evdir = os.environ.get("PGVERIF_EVIDENCE_DIR") or os.path.join(VERIF, "evidence")   # (redirected by tools/run_seeded.sh only)
    os.makedirs(evdir, exist_ok=True)
    pconf = CONF["properties"][prop]
    # a function whose only failing clauses are listed known findings is reported under known_findings_hit, not as an
    # obligation of this run (it is neither discharged nor a new violation); failures tagged for another property likewise
    kf_fns = set((f["obligation"].split("#")[0]) for f, k in known_hits)
    viol_fns = set((f["obligation"].split("#")[0]) for ur, f in violations)
    excluded = len(kf_fns - viol_fns)
    obligations = sum(r.verified + r.errors for r in results) - excluded + sum(k["checks"] for k in kres if k["complete"])
    discharged = sum(r.verified for r in results) + sum(k["checks"] - k["failed"] for k in kres if k["complete"])
    fu, samples, trusted, rewrites = [], [], [], {}
    for r in results:
        execs = [f for f in r.breakdown if f.get("mode:") == "exec"]
        for it in r.asm["items"]:
            fu.append("%s %s :: %s (%s:%d)" % (r.unit, it.container, it.name, it.relpath, getattr(it, "src_line", 0)))
            for rule, orig in it.rewrites:
                rewrites[rule] = rewrites.get(rule, 0) + 1
        for f in sorted(r.breakdown, key=lambda x: -x.get("time-micros", 0))[:8]:
            samples.append(dict(obligation="%s::%s (all verification conditions of this %s fn)" % (r.unit, f["function"].split("::", 1)[-1], f.get("mode:")), solver_us=f.get("time-micros"), rlimit=f.get("rlimit"), discharged=bool(f.get("success"))))
        for t in r.trust:
            trusted.append("%s [%s] %s: %s" % (r.unit, t["kind"], t["where"], t["text"]))
    stats = {}
    for r in results:
        for k, v in r.asm["stats"].items():
            if isinstance(v, list): stats[k] = sorted(set(stats.get(k, []) + v))
            else: stats[k] = stats.get(k, 0) + v
    cov = dict(
        obligations=obligations, discharged=discharged,
        checker_cmd="; ".join(sorted(set(r.cmd for r in results))) + ("; cargo kani (see kani_harnesses)" if kres else ""),
        trusted_base=sorted(set(trusted)) + pconf.get("trusted_notes", []),
        samples=samples[:16],
        obligation_unit="one obligation = all verification conditions Verus generates for one function (pre/postconditions, callee preconditions, loop invariants, bounds, overflow, termination); clause-level counts are in clauses_in_generated_text",
        clauses_in_generated_text={r.unit: dict(zip(("contract_clauses", "asserts"), clause_count(r.gen))) for r in results},
        back_ends=dict(verus=dict(functions_verified=sum(r.verified for r in results), functions_failed=sum(r.errors for r in results), smt_seconds=round(sum(r.smt_ms for r in results) / 1000.0, 2)),
                       kani=dict(harnesses=[dict(name=k["name"], complete=k["complete"], bound=k.get("bound"), checks=k["checks"], failed=k["failed"], seconds=k["seconds"]) for k in kres])),
        functions_under_contract=fu,
        functions_named_unverified=pconf.get("unverified", []),
        extraction=dict(stats, drift_edits_merged=sum(len(r.asm["drift"]) for r in results), rewrites_applied=rewrites,
                        note="every //@ item region was re-located in /repo's working tree by path, token-aligned and audited on this run"),
        bounded_standins=[dict(name=k["name"], bound=k.get("bound"), checks=k["checks"], failed=k["failed"]) for k in kres if not k["complete"]],
        canaries=dict((r.unit, r.canary) for r in results),
        known_findings_hit=[f["obligation"] for f, k in known_hits],
        failed_obligations=[f["obligation"] for ur, f in violations] + [k["obligation"] for k in kviol],
    )
    ev = dict(property_id=prop, tier=tier, seed=seed, level="proof", coverage=cov,
              assumptions=pconf.get("assumptions", []) + CONF.get("global_assumptions", []),
              wall_s=round(wall, 2), violations=len(violations) + len(kviol))
    json.dump(ev, open(os.path.join(evdir, "%s.json" % prop), "w"), indent=1)

def replay(path):
    doc = json.load(open(path))
    prop, unit, ob = doc["property"], doc.get("unit"), doc["obligation"]
    if doc.get("verifier") == "kani":
        import kani_runner
        return kani_runner.replay(doc, REPO, VERIF)
    base = os.environ.get("TMPDIR") or "/var/tmp"
    workdir = tempfile.mkdtemp(prefix="pgverif.", dir=base)
    try:
        ur = run_unit(unit, workdir, do_canary=False)
        hit = [f for f in ur.fails if f["obligation"] == ob]
        if hit:
            log("replay: obligation %s still fails on the current tree:\n%s" % (ob, hit[0]["rendered"]))
            log("VIOLATION property=%s replay=%s obligation=%s no-failing-input-found" % (prop, path, ob))
            return 1
        log("replay: obligation %s is discharged on the current tree (%d verified, %d other failures)" % (ob, ur.verified, len(ur.fails)))
        return 0
    finally:
        shutil.rmtree(workdir, ignore_errors=True)

def main():
    ap = argparse.ArgumentParser()
    ap.add_argument("prop", nargs="?")
    ap.add_argument("--tier", default=os.environ.get("VERIF_TIER", "quick"))
    ap.add_argument("--replay")
    ap.add_argument("--unit")
    ap.add_argument("--keep")
    ap.add_argument("--no-canary", action="store_true")
    a = ap.parse_args()
    seed = int(os.environ.get("VERIF_SEED", "0") or 0)
    try:
        if a.replay:
            sys.exit(replay(a.replay))
        if a.unit:
            base = os.environ.get("TMPDIR") or "/var/tmp"
            workdir = tempfile.mkdtemp(prefix="pgverif.", dir=base)
            try:
                ur = run_unit(a.unit, workdir, do_canary=not a.no_canary, keep=a.keep)
                log("unit %s: verified=%d errors=%d smt=%.1fs trust=%s canary=%s drift=%d" % (a.unit, ur.verified, ur.errors, ur.smt_ms / 1000.0, ur.trust_counts, ur.canary, len(ur.asm["drift"])))
                for f in ur.fails:
                    log("FAILED %s props=%s\n   clause: %s\n   at: %s" % (f["obligation"], f["props"], f["clause"], f["at_text"]))
                slow = sorted(ur.breakdown, key=lambda x: -x.get("time-micros", 0))[:5]
                log("slowest: " + ", ".join("%s %.2fs" % (f["function"].split("::")[-1], f["time-micros"] / 1e6) for f in slow))
                sys.exit(1 if ur.fails else 0)
            finally:
                shutil.rmtree(workdir, ignore_errors=True)
        if not a.prop:
            ap.error("property id required")
        sys.exit(check_property(a.prop, a.tier, seed))
    except Undecided as e:
        log("UNDECIDED (exit 2, no claim about the property): %s" % e)
        sys.exit(2)

if __name__ == "__main__":
    main()
