#!/bin/sh
# usage: run_seeded.sh [id ...]   - apply each stored seeded change to /repo's working tree, run the property's check (and, where
# meta.json names another property under "also_check", that one too), record the outcome in seeded/RESULTS.txt, and restore /repo.
# Never run while another check is running: it edits /repo's working tree.
cd /verif || exit 2
if [ -n "$(git -C /repo status --short)" ]; then echo "/repo working tree is not clean"; exit 2; fi
ids="$*"; [ -z "$ids" ] && ids=$(ls seeded | grep -v RESULTS | sort)
for id in $ids; do
  d=seeded/$id; [ -f $d/patch.diff ] || continue
  prop=${id%%-*}
  props="$prop $(python3 -c "import json;print(' '.join(json.load(open('$d/meta.json')).get('also_check',[])))")"
  if ! git -C /repo apply /verif/$d/patch.diff 2>/dev/null; then echo "$id apply-failed (the stored patch no longer applies to /repo HEAD)" | tee -a seeded/RESULTS.txt.new; continue; fi
  for p in $props; do
    ./check $p > /tmp/seeded_$id.log 2>&1; rc=$?
    line=$(grep -m1 "VIOLATION\|UNDECIDED" /tmp/seeded_$id.log | cut -c1-220)
    echo "$id check=$p rc=$rc $line" | tee -a seeded/RESULTS.txt.new
  done
  git -C /repo checkout -- .
  rm -f /tmp/seeded_$id.log
done
mv seeded/RESULTS.txt.new seeded/RESULTS.txt
# the runs above rewrote evidence files from a changed tree: refresh them from the clean tree
for p in $(ls evidence | sed 's/.json//'); do ./check $p > /dev/null 2>&1 || echo "WARNING: ./check $p is not clean on the unchanged tree"; done
