#!/bin/sh
# usage: run_seeded.sh [id ...]   - apply each stored seeded change to a SCRATCH worktree of /repo (never to /repo itself), run the
# property's check against it (PGVERIF_REPO), and, where meta.json names other properties under "also_check", those too; record
# the outcomes in seeded/RESULTS.txt.  Evidence written by these runs goes to a scratch directory, not to /verif/evidence.
cd /verif || exit 2
W=${TMPDIR:-/var/tmp}/pgverif-seeded-wt.$$
E=${TMPDIR:-/var/tmp}/pgverif-seeded-ev.$$
S=${TMPDIR:-/var/tmp}/pgverif-seeded-snap.$$
git -C /repo worktree add -q --detach "$W" HEAD || exit 2
mkdir -p "$E" "$S"
# the checks run from a SNAPSHOT of the machinery (fragments, tools, known findings), so that work on /verif can go on meanwhile
rsync -a --exclude .git --exclude evidence --exclude replay --exclude seeded /verif/ "$S"/
ids="$*"; [ -z "$ids" ] && ids=$(ls seeded | grep -v RESULTS | sort)
: > seeded/RESULTS.txt.new
for id in $ids; do
  d=seeded/$id; [ -f $d/patch.diff ] || continue
  prop=${id%%-*}
  props="$prop $(python3 -c "import json;print(' '.join(json.load(open('$d/meta.json')).get('also_check',[])))")"
  git -C "$W" checkout -q -- . 
  if ! git -C "$W" apply /verif/$d/patch.diff 2>/dev/null; then echo "$id apply-failed (the stored patch no longer applies to /repo HEAD)" | tee -a seeded/RESULTS.txt.new; continue; fi
  for p in $props; do
    PGVERIF_REPO="$W" PGVERIF_EVIDENCE_DIR="$E" "$S"/check $p > "$E/$id.log" 2>&1; rc=$?
    line=$(grep -m1 "VIOLATION\|UNDECIDED" "$E/$id.log" | cut -c1-220)
    echo "$id check=$p rc=$rc $line" | tee -a seeded/RESULTS.txt.new
  done
done
if [ -n "$*" ] && [ -f seeded/RESULTS.txt ]; then
  # partial run: keep the lines of the ids that were not re-run
  for id in $ids; do grep -v "^$id " seeded/RESULTS.txt > seeded/RESULTS.txt.keep; mv seeded/RESULTS.txt.keep seeded/RESULTS.txt; done
  cat seeded/RESULTS.txt seeded/RESULTS.txt.new | sort > seeded/RESULTS.txt.keep; mv seeded/RESULTS.txt.keep seeded/RESULTS.txt; rm -f seeded/RESULTS.txt.new
else
  mv seeded/RESULTS.txt.new seeded/RESULTS.txt
fi
git -C /repo worktree remove --force "$W"; git -C /repo worktree prune
rm -rf "$E" "$S"
