#!/bin/sh
# usage: confirm_mutant_at.sh <mutant dir> <scratch worktree> <demo path relative to worktree> <cargo test args...>
# like confirm_mutant.sh, for demos that must live in another workspace member
M="$1"; W="$2"; D="$3"; shift 3
cd "$W" || exit 2
git checkout -q -- . && git clean -fdq >/dev/null 2>&1
cp "$M/demo.rs" "$D"
export CARGO_NET_OFFLINE=true
if ! cargo test --offline -q "$@" >/tmp/confirm_clean.$$ 2>&1; then echo "NOT-CONFIRMED: demo fails on the clean tree"; tail -5 /tmp/confirm_clean.$$; rm -f "$D"; exit 1; fi
git apply "$M/patch.diff" || { echo "NOT-CONFIRMED: patch does not apply"; exit 1; }
if cargo test --offline -q "$@" >/tmp/confirm_mut.$$ 2>&1; then echo "NOT-CONFIRMED: demo passes with the change"; git checkout -q -- .; rm -f "$D"; exit 1; fi
rm -f "$D"
if ! cargo test --workspace --no-fail-fast --offline >/tmp/confirm_suite.$$ 2>&1; then echo "NOT-CONFIRMED: existing suite fails with the change"; grep -E "^test .* FAILED|failed" /tmp/confirm_suite.$$ | head -5; git checkout -q -- .; exit 1; fi
PASSED=$(grep -E "^test result: ok" /tmp/confirm_suite.$$ | sed -E 's/.* ([0-9]+) passed.*/\1/' | paste -sd+ | bc)
git checkout -q -- .; git clean -fdq >/dev/null 2>&1
rm -f /tmp/confirm_clean.$$ /tmp/confirm_mut.$$ /tmp/confirm_suite.$$
echo "CONFIRMED: demo passes clean, fails mutated; existing suite passes with the change ($PASSED tests ok)"
