    // dot::Escaper::write_char for EVERY char (complete): a quote or backslash is preceded by a backslash, a newline
    // becomes the two characters `\l`, everything else is written unchanged - so no label can close its quote.
    struct Sink { buf: [char; 4], n: usize }
    impl fmt::Write for Sink {
        fn write_str(&mut self, s: &str) -> fmt::Result { for c in s.chars() { self.write_char(c)?; } Ok(()) }
        fn write_char(&mut self, c: char) -> fmt::Result { if self.n < 4 { self.buf[self.n] = c; self.n += 1; Ok(()) } else { Err(fmt::Error) } }
    }
    #[kani::proof]
    #[kani::unwind(6)]
    fn escaper_write_char_all_chars() {
        use core::fmt::Write;
        let c: char = kani::any();
        let mut e = Escaper(Sink { buf: ['\0'; 4], n: 0 });
        let r = e.write_char(c);
        assert!(r.is_ok());
        let s = e.0;
        if c == '"' || c == '\\' { kani::cover!(true); assert!(s.n == 2 && s.buf[0] == '\\' && s.buf[1] == c); }
        else if c == '\n' { kani::cover!(true); assert!(s.n == 2 && s.buf[0] == '\\' && s.buf[1] == 'l'); }
        else { assert!(s.n == 1 && s.buf[0] == c); }
    }
