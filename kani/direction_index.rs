    // Direction::index (`(self as usize) & 1`): the contract Verus assumes. Complete (two values).
    #[kani::proof]
    fn direction_index_contract() {
        assert!(Direction::Outgoing.index() == 0);
        assert!(Direction::Incoming.index() == 1);
        assert!(Direction::Outgoing.opposite() == Direction::Incoming && Direction::Incoming.opposite() == Direction::Outgoing);
    }
