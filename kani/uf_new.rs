    // UnionFind::new(n) (`(0..n).map(K::new).collect()`): the contract Verus assumes. BOUNDED: K = u8, n <= 8.
    #[kani::proof]
    #[kani::unwind(10)]
    fn uf_new_contract() {
        let n: usize = kani::any();
        kani::assume(n <= 8);
        let uf: UnionFind<u8> = UnionFind::new(n);
        assert!(uf.parent.len() == n && uf.rank.len() == n);
        for i in 0..8 {
            if i < n { assert!(uf.parent[i] as usize == i && uf.rank[i] == 0); }
        }
    }
