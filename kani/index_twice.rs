    // index_twice: the contract Verus assumes (units/frag/graph_types.rs), checked on the real body.
    // Complete in the indices a, b (all usize); BOUNDED in the slice length (0..=5).
    #[kani::proof]
    fn index_twice_contract() {
        let mut v = [10u32, 11, 12, 13, 14];
        let n: usize = kani::any();
        kani::assume(n <= 5);
        let a: usize = kani::any();
        let b: usize = kani::any();
        let slc = &mut v[..n];
        match index_twice(slc, a, b) {
            Pair::None => { kani::cover!(true); assert!(a >= n || b >= n); }
            Pair::One(x) => { kani::cover!(true); assert!(a == b && a < n && *x == 10 + a as u32); *x = 99; }
            Pair::Both(x, y) => {
                kani::cover!(true);
                assert!(a != b && a < n && b < n && *x == 10 + a as u32 && *y == 10 + b as u32);
                *x = 98; assert!(*y == 10 + b as u32);   // no aliasing
                *y = 97; assert!(*x == 98);
            }
        }
        // frame: exactly the returned positions may have changed
        for i in 0..5 {
            if !(i < n && (i == a || i == b)) { assert!(v[i] == 10 + i as u32); }
        }
    }
