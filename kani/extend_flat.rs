    // extend_flat_square_matrix (unsafe ptr::swap_nonoverlapping): the contract Verus assumes
    // (units/frag/matrix.rs), checked on the real body with SYMBOLIC cell contents for a grid of
    // concrete capacity triples (old, requested, exact).  BOUNDED: old <= 4, requested <= 6.
    fn check_extend(old: usize, req: usize, exact: bool) {
        let mut v: Vec<u8> = Vec::with_capacity(64);
        let mut orig = [0u8; 16];
        for i in 0..old * old { let x: u8 = kani::any(); orig[i] = x; v.push(x); }
        let cap = extend_flat_square_matrix(&mut v, old, req, exact);
        assert!(cap >= req);
        if exact { assert!(cap == req); } else { assert!(cap <= 2 * req || cap == 4); }
        assert!(v.len() == cap * cap);
        for r in 0..cap {
            for c in 0..cap {
                if r < old && c < old { assert!(v[r * cap + c] == orig[r * old + c]); }
                else { assert!(v[r * cap + c] == 0); }
            }
        }
    }
    #[kani::proof]
    #[kani::unwind(66)]
    fn extend_flat_grid_quick() {
        check_extend(0, 1, true); check_extend(0, 1, false);
        check_extend(1, 2, true); check_extend(2, 3, true);
        check_extend(2, 3, false); check_extend(3, 4, true);
        check_extend(3, 5, false); check_extend(4, 5, true); check_extend(4, 6, true);
    }
